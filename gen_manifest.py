#!/venv/bin/python
"""Regenerates MANIFEST.json from the table below (development helper; not run by the checks)."""
import json
import os

ROOT = os.path.dirname(os.path.abspath(__file__))

# id -> (design section, technique, level text, level note)
CHECKS = {
    "C14": ("3/C14",
            "exhaustive enumeration of initial segments + Hypothesis-constructed values near perfect powers; "
            "round-trip and reference-set oracles",
            "Exploration: every pairing/projection offered is enumerated exhaustively on initial segments "
            "(z < 2e4 quick / 2e5 thorough, coordinate boxes), and searched with constructed values adjacent to "
            "perfect squares, cubes, triangular numbers and powers of two up to the grid size limit (1e8 points "
            "per axis, i.e. z up to 6e49 in d=3); PairingToZ1d is enumerated for all intervals up to 40x40 under "
            "four call orders plus drawn orders; lazy_indices_product for all size tuples with product <= 5000; "
            "StatesManager against a reference set of in-grid increments on real grids in d=1..3. A bijection "
            "over an infinite domain cannot be enumerated; the round trip is the deciding oracle on everything "
            "generated. Round 8: a_n next to squares up to 3e6^2 and, exactly, at m^2 - 1 for m beyond 2^26; hyperbolic shells with two prime factors above 2^15.",
            "Trusts itertools.product, math.isqrt-based reference for the divisor sum, and the harness's "
            "reference set of in-grid increments; hyperbolic pairing limited to (x+1)(y+1) <= 2e6."),
    "C09": ("3/C09",
            "Hypothesis-generated (family, parameters, n, interval, truncation, split) cases; oracle = harness "
            "quadrature of x^n*nu(x) with log-substitution at 0, additivity, sign rules, truncation = intersection",
            "Exploration: each closed-form mass / first / second / n-th moment entry point of HEM, Merton, VG and "
            "CGMY (five activity branches reached by construction, incl. y=0 and y=1) is compared with an "
            "independent quadrature of the model's own density over ten interval classes (one-sided, touching 0, "
            "straddling, half-infinite, whole line) wherever the integral is finite, plus additivity over a drawn "
            "split point (incl. 0), sign rules and TruncatedLevyMeasure = integral over the intersection. "
            "Far tails (8..60 decay lengths from zero, HEM and VG) are decided separately against incomplete-gamma / "
            "exponential-integral closed forms of the re-typed density at 1e-9 relative. A tenth of the CGMY models of "
            "the branches next to y=1 have y within 1e-5..1e-2 of 1. "
            "Equality is up to a stated numerical tolerance, so deviations below ~1e-7 relative are invisible. Round 8: python-integer end points, thin intervals (relative width 1e-6..1e-7), one-sided truncations (a bound exactly 0), high-activity small-jump Merton.",
            "Trusts scipy.integrate.quad at epsrel 1e-12 on decade-split pieces (validated against closed-form "
            "incomplete-gamma values to 1e-15); end points in [1e-4,20]; n <= 6."),
    "C13": ("3/C13",
            "Hypothesis-generated constructor arguments and refinement histories; invariants after every step; "
            "tail / per-step probabilities against quadrature of the model density",
            "Exploration: every grid constructor (uniform, fixed-size, geometric, geometric-with-bounds, "
            "probability-step, credit symmetric/asymmetric) in d=1..3 with generated models, steps and 0..4 "
            "successive refine() calls; after construction and after each refinement: finite strictly increasing "
            "axes, 0 at the origin index with -h/+h neighbours, ends = reported truncations, requested tail "
            "probability (1e-6, and the mass left outside = (1-p) of the one-sided mass to 1e-4 relative, incl. weakly damped "
            "CGMY margins with G, M in [0.1, 0.3]) and per-step probability, middle() halves the gap mass, thresholds on cell "
            "boundaries; refinement keeps old states at doubled indices, inserts exactly the pre-refinement "
            "middle() strictly inside each gap, halves h, doubles the origin, keeps the bounds, refines shared "
            "axes once each. Round 8: a step of 1 or 2 written as a python integer gives the grid of the float step (all constructors, after refinements). Round 9: model-based uniform grids with a step coarse next to the bounds (half-axes of one or two states); uniform / geometric grids built for SDE models whose number of components differs from the driver's dimension.",
            "Sound domain: h relative to the model's jump scale so that each half-axis has >= 2 states, "
            "two-sided jump laws, thresholds inside (l,-h); documented ValueError rejections are counted as "
            "rejected, not as passes."),
    "C01": ("3/C01",
            "Hypothesis-generated chains (model x grid constructor x refinements x sampling method); oracle = "
            "quadrature of the model density per reference midpoint cell, harness re-implementation of the "
            "Levy-copula rectangle mass, dblquad of the Clayton joint density",
            "Exploration: for generated 1-d chains the integration cells the code uses are captured and compared "
            "with reference cells built from the axis alone (tiling, shared end points, truncation bounds, central "
            "cell), every rate is compared with an independent quadrature of the density, rates are >= 0 and sum "
            "to the reported intensity, and three routes to a state's rate agree; half of the cases first build up to "
            "two chains on narrower grids with the same model object, and the caller's model must come out unchanged; a "
            "third of the independent grids get a model the caller truncated first (rates = mass of cell ∩ restriction); "
            "half of the refined grids served a coarser chain before each refinement. "
            "For copula chains (d=2,3; "
            "Clayton incl. eta in {0,1}, independent, dependent; INVERSION and adapted tree) every state's rate, "
            "the intensity and the 3^d-1 bucket masses are compared with a reference rectangle mass re-implemented "
            "from Kallsen-Tankov over quadrature tail integrals; Clayton rectangles also against dblquad of the "
            "joint density. Round 8: a quarter of the models take the update route (reference built directly); a copula model object is carried through an in-place parameter update between two chains on equal grids; low-volatility VG (decay rates in the thousands).",
            "Reference copula formulas are re-typed from the papers (differential oracle, validated against "
            "dblquad for Clayton d=2); grids small (<= 700 states in 2-d, <= 400 in 3-d); tolerance 1e-7 (1-d), "
            "1e-6 relative + 2e-8 of the intensity (copula)."),
    "C02": ("3/C02",
            "black-box measurement of the piecewise-constant map u -> state (lattice + candidate break points + "
            "bisection) against the target law; scripted uniforms / bit source for the batch entry points; "
            "operation sequences on one long-lived sampler versus fresh samplers",
            "Exploration: for generated probability vectors (zeros, ties, tiny and dominant entries, length up to "
            "1024) and for chains built through the public factory with every option it accepts (1-d: six methods; "
            "copula d=2,3: inversion and adapted tree) the preimage length of every state is measured through the "
            "single-uniform entry point and compared with p_k (resp. cell rate / intensity) at 1e-9; states of "
            "probability zero, outside the grid or the origin with positive measure are violations; batch calls "
            "are driven with scripted uniforms / bits and compared element-wise; histories (repeat, out-of-order, "
            "beyond-cache, batch, cost resets; for the inversion sampler also with its memo capacity lowered to 2..60 "
            "entries, standing for chains larger than the memo) on a long-lived sampler must agree with fresh samplers. "
            "Measure-zero anomalies "
            "(isolated u, rounding slivers) are reported under one known-finding key per sampler family. Round 8: probability vectors as ndarray / list / tuple; a chain and its sampler are built on the grid before each in-place refinement; intensities scaled by 1e-9; bounded memo also for the n-d inversion sampler. Round 9: grids assembled by the user (base CTMCGrid): irregular gaps and states on one side of the origin only (all six options on each), copula grids with few states left and several more right of the origin; the vector entry point of the n-d tree called twice with the caller's array and with a list.",
            "Candidate break points are read from the sampler's own tables only to make the measurement exact; "
            "the verdict comes from black-box evaluations. TABLE: law implied by its tables plus scripted batch. "
            "numpy's global RNG is seeded inside each case (the inversion sampler falls back on it)."),
    "C04": ("3/C04",
            "Hypothesis-generated chains with a pre-declared Levy-Khintchine representation; oracle = quadrature "
            "of x(1-c(x))nu(x) and x^2 nu(x) of the model's own density over the truncation interval",
            "Exploration: for generated 1-d chains (all families incl. infinite variation, identity and log "
            "processes, every grid constructor, 0..2 refinements) declared in each valid representation in turn, "
            "process_drift + sum x_k q_k is compared with model.drift + a_decl + compensated first moment of the "
            "truncated measure (quadrature); the added diffusion variance must be the central-cell second moment "
            "iff infinite variation and exactly 0 otherwise; the jump variance must lie within the per-cell "
            "oscillation bound. For copula chains (d=2,3) every margin's mean is checked the same way with the "
            "independently computed box-truncation leak of the other coordinates added to the tolerance; a third of the "
            "2-d cases mix a finite- with an infinite-variation margin; the diffusion matrix D of the copula chain must be "
            "finite with D D^T = diag(sigma^2) for finite variation (D D^T - diag(sigma^2) positive semi-definite "
            "otherwise). One 1-d case in ten uses a very coarse fixed-size grid (h in [2.2, 6]): the mean is decided, the "
            "small-jump variance is labelled undecided there. Round 8: for d=2 infinite-variation copulas D D^T - diag(sigma^2) equals the library's own small-jump covariance matrix (sharp) and, with independent components, the one-dimensional second moments within the library's quadrature bound. Round 9: a user-assembled model (the jumps of a library model plus a Brownian component), so that sigma^2 and the small-jump variance are both non-zero.",
            "Rates are those verified by C01; a_decl is read from the model after set_representation (the "
            "conversions on the untruncated measure are C10's subject)."),
    "C03": ("3/C03",
            "Hypothesis-generated coupled chains over 1..4 levels; reference model = fresh level-(l-1) chain on a "
            "pre-refinement copy of the grid; coupling kernel measured black-box with scripted uniforms; "
            "conditional-law reference kernel for copulas",
            "Exploration: at every level of generated 1-d couplings (all six sampling methods, every grid "
            "constructor) the identity sum_k r_f(k) P(k->y) = r_c(y) is checked for every coarse state against a "
            "fresh level-(l-1) chain, the mass sent to 'no coarse jump' against quadrature, the kernel is "
            "re-measured through coupling_state with scripted uniforms, even increments must be copied and odd "
            "ones moved to an adjacent coarse state, and the coarse diffusion coefficient / drift must be the "
            "level-(l-1) ones driven by the same scripted Brownian increments over drawn payoff dates (one maturity "
            "T in {0.25, 1, 2.5} or monthly averaging dates); initial steps down to 1e-8 of the jump scale for "
            "finite-variation models. For copula couplings (d=2,3) two scripted Brownian rows drive two consecutive "
            "coupled paths over several dates (each popped once), and every "
            "fine state's kernel is measured by bisection on the coupling uniform and compared with the "
            "conditional law of the coarse cell given the fine cell (rows labelled all-even / all-odd / mixed "
            "parity), and the telescoping identity is checked against a fresh level-0 chain. A third of the 1-d "
            "histories advance with next_level(path_managers=None) (the way CouplingSDE drives it); the fine "
            "diffusion coefficient is compared with a fresh chain on a copy of the level grid. CouplingSDE: coarse "
            "and fine driver drifts, driver diffusion coefficients (against fresh chains) and epsilon = h^beta. Round 8: a levelled CouplingSDE is initialised again before its drifts are read. Round 9: 2-d copula couplings with infinite-variation margins (step-dependent diffusion matrix) over one or two levels, built up front or with a path simulated between the levels.",
            "Rates are those verified by C01; copula couplings restricted to finite-variation margins and small "
            "level-0 grids (<= 49 states in 2-d, 125 in 3-d), one refinement."),
    "C10": ("3/C10",
            "Hypothesis-generated arguments, conversion sequences and exponential models; oracles = quadrature of "
            "the Levy-Khintchine integrand of the declared triplet, Cauchy-integral derivatives of the exponent, "
            "definition-based drift conversions, martingale identities under each simulation route",
            "Exploration: levy_exponent(u) for real and complex u inside the strip of analyticity is compared "
            "(real and imaginary part separately) with i u a - sigma^2 u^2/2 + quadrature of (e^{iux}-1-iux c(x)) "
            "nu(x) for the representation the model declares (five CGMY branches incl. y<0, 0, 1); every stated "
            "cumulant with the n-th derivative of the exponent (256-node Cauchy integral); sequences of up to 6 "
            "representation changes against the definition of each drift (quadrature), for reversibility and with the "
            "exponent / log-characteristic function of the same object unchanged after every change; for "
            "exponential models the forward is recovered from the characteristic function at -i, from the "
            "direct-simulation drift (HEM, Merton, BS) and from the Markov-chain drift under the exact truncated "
            "jump law (up to the independently computed truncation leak). Round 8: the characteristic function is evaluated twice on one complex / real array (argument unchanged, equal to the scalar calls); drifted pure diffusions in the cumulant check. Round 9: the exponent and characteristic function are also asked of the exponential model objects; stddev / skewness / kurtosis against the raw moments asked one by one.",
            "Arguments |Re u|<=6, |Im u| <= 0.45 x decay rate; tolerance 1e-7 of the absolute integrals; the "
            "Markov-chain route uses the rates verified by C01."),
    "C05": ("3/C05",
            "model-based testing of the real multilevel engine against a scripted coupling process whose ledger of "
            "handed-out samples is the reference model; Hypothesis generates the per-level law and the configuration",
            "Exploration: the real engine, path managers, payoffs, statistics and control variates are run on a "
            "scripted coupling whose every sample carries an identifiable value; after every pass and at return the "
            "per-level sample arrays must equal the ledger row for row (no placeholder, nothing dropped, duplicated "
            "or overwritten; coarse = 0 at level 0), N_l = ledger counts, and price, ml, vl, level means/variances, "
            "kurtosis, cl and cost are recomputed with numpy from the ledger (with controls: from textbook "
            "regression-adjusted samples). Histories are classified by what the run did (passes, levels added late, "
            "sample sizes doubled). Round 8: down-and-out calls on scripted three-date paths (each component with its own knock-out status), per-path costs from 1e-4 to 40, kurtosis = fourth central moment / variance^2 (no mirrored floor), tolerances relative. Round 9: maximum level below the initial level; one configuration object built for other values with its attributes (initial sample size, levels, processes) assigned afterwards.",
            "Scripted collaborator replaces only the simulator; runs bounded by 200 passes / 30000 samples "
            "(inconclusive beyond); scalar payoffs (the MLMC results are scalar by construction)."),
    "C06": ("3/C06",
            "Hypothesis-generated variance/cost vectors for the allocation and bias functions (shares measured from "
            "the functions themselves); spies on the criteria/allocation calls and the ledger for adaptive runs",
            "Exploration: for generated vectors (zeros, tiny entries, 1..12 levels, rmse over four decades) the "
            "allocation must satisfy sum V_l/N_l <= measured variance share x rmse^2 and measured squared bias "
            "tolerance + variance share <= rmse^2, be monotone in V_l and leave its inputs untouched; for adaptive "
            "runs of the real engine on the scripted coupling no sample or level above the maximum may be requested, "
            "the run may return only if the last bias test passed or L = maximum, and only when the last allocation "
            "(computed from the final variances) is met within the 1% rule. Round 8: the bias test is recomputed from the ledger samples for runs that stopped below the maximum level. Round 9: one Engine priced twice (the guarantees hold for the second pricing alone); maximum level below the initial level; re-assigned configuration attributes.",
            "'Always terminates' is only bounded: terminated within 200 passes / 30000 samples on every generated "
            "trajectory, a budget hit is inconclusive."),
    "C07": ("3/C07",
            "Hypothesis-generated path sets fed to the real standard engine through a scripted process; numpy "
            "reference for mean, unbiased standard error and regression-adjusted samples",
            "Exploration: for 1..200 generated paths (1-3 assets, identity/log representation, constant payoffs "
            "included), scalar and vector strikes (payoff dimension 1..4), notionals, discount factors, 0..3 controls "
            "(scalar, or with one strike and one price per payoff component); scripted paths on their own time grids under "
            "a drifting process with Asian / spot / barrier payoffs (each sample = payoff of its own path) "
            "and spot statistics on/off, the engine must consume each path exactly once, store the samples in "
            "order, report price = df x mean(notional x payoff) and error = unbiased sample std / sqrt(n) per "
            "component, and with controls the mean of Y - b*(X - price_X) with b* the sample regression coefficient "
            "(adjusted samples compared one by one), equal to the raw mean when the given prices are the sample "
            "means, with adjusted variance <= raw variance. Underlying sizes 1, 1e-3 and 1e-6 (values, strikes and control "
            "prices scaled together; tolerances relative). The same cases are priced with 2-3 worker processes: the "
            "recorded terminal spots must be scripted paths and every estimator the textbook one of those spots. Round 8: zero and negative notionals. Round 9: price and error under the explicit spelling no_control_variates=False, with and without controls.",
            "Control-variate comparisons only for covariance matrices with condition number < 1e4 (counted "
            "otherwise); the near-singular guard of the library (b*=0) is mirrored."),
    "C08": ("3/C08",
            "Hypothesis-generated run histories (engine, seed, prior RNG consumption, simulation mode, clock) with "
            "a harness-owned clock and spies on the seed calls; differential between two seeded runs; distinctness "
            "of sample values / consumed variates; enumerated worker-process configurations",
            "Exploration: the standard engine on the real LevyProcess (BS, Merton, HEM; fixed dates and jump "
            "times) and the multilevel engine on an RNG-consuming scripted coupling and on a real "
            "CouplingMarkovChain (all six state samplers, incl. TABLE which draws from Python's generator) are each run twice with the same seed after different amounts of prior RNG "
            "consumption and under different clock values: stored samples must be bit-identical; within a run all "
            "samples must be pairwise distinct (shared variates show as equal values or repeated variate tuples "
            "across paths, passes and levels), pre-drawn rows must all be consumed, coarse(l) must differ from "
            "fine(l-1), and no seed value may be applied again once samples were produced under it. Worker "
            "processes: 2..4 workers x path counts, stored samples must be pairwise distinct (currently a listed "
            "known finding: chunks share the pre-drawn buffers). Adaptive engine (Engine.price, several passes, levels "
            "deep-copied and added) on the real coupling: seeded repeat incl. every coupling decision, and every "
            "variate compared with the right-jump probability (recorded by a probe at the comparison) occurs once. "
            "Multilevel engine with worker processes (default count, 2, ...) x seed / none in jump-time mode: distinct samples. "
            "Pre-drawn variates of the five fixed-date simulators (direct, 1-d chain, copula chain, both couplings): one "
            "Brownian and one Poisson row per path, rows pairwise distinct, popped once per path, path i driven by row i; "
            "one pre-computation of more than 2^21 normals: rows pairwise distinct. Round 8: seed 0; a third unseeded run at the same clock reading must not repeat the first; the table of pre-drawn jump counts holds every variate a scripted numpy Poisson sampler handed out (values beyond 2^16), once; copula coupling: one fresh uniform per projected jump. Round 9: seeded runs on a configuration whose number of processes was assigned after construction.",
            "The OS scheduling of workers is not controlled; the clock and every seed call are. Equal values = "
            "shared variates holds because payoffs are continuous in the variates (sigma >= 0.05)."),
    "C15": ("3/C15",
            "Hypothesis-generated time grids and scripts for every random collaborator (jump counts, jump times, "
            "jump sizes / sampled states, Brownian increments, coupling uniforms); the returned path is compared "
            "with a harness re-assembly from the same script",
            "Exploration: the direct simulator, the Markov chain, the coupled chain (levels 1-2), the Levy-copula "
            "chain and the copula coupling (d=2,3) are driven in fixed-date, jump-time and maximum-step mode with "
            "1..12 observation dates and scripted variates; times must increase strictly from 0 to the maturity, "
            "value(0)=0, the jump path must be the running sum of all scripted jumps up to each time (fine and "
            "coarse), the diffusion path the cumulative sum of coefficient*sqrt(dt)*w_i with each scripted variate "
            "used once, inserted points must repeat the preceding value and keep every step - up to the maturity, jumps "
            "or not - under the cap; the "
            "three finer-grid builders are also checked directly on drawn arrays. Round 8: busy intervals (up to 2e5 unit jumps per interval, counts through the real pre-computation). Round 9: in half of the cases the uniforms behind the jump times are scripted (in decreasing order) instead of the function that orders them.",
            "Scripts replace the random collaborators on the instances (numpy.random.normal on the module for the "
            "duration of the call); small fixed grids; the coupling kernel itself is C03's subject."),
    "C16": ("3/C16",
            "Hypothesis-generated drivers, coefficient functions and levels; the driver path consumed by the scheme "
            "is captured and the Euler recursion recomputed in the harness; closed forms for constant and diagonal "
            "coefficients; discount factors on a mesh containing every tenor and its float neighbours",
            "Exploration: MarkovChainSDE (single process) and CouplingSDE (levels 1-2, both components) over 1-d "
            "chains of every family and 2-d Clayton copula chains, with Constant (m x d), DiagX, Libor-type coefficients "
            "(tenors beyond or inside the horizon, up to two earlier paths on the same process) and the Levy Libor model "
            "(state-dependent SDE drift) "
            "coefficient functions: the returned path must equal, step by step on the driver's own time grid, "
            "X_{i+1} = X_i + (b + a(t_i,X_i) mu) dt + a(t_i,X_i)(dW_i + dL_i) with the coefficient re-typed in the "
            "harness, each component with the drift of a fresh chain built on an independently refined grid of its own "
            "level (the coupling's stored drifts are compared with those, and in 1-d the fine/coarse diffusion "
            "increments must be the fresh chains' coefficients times one Brownian path); constant a => x0 + a*Y_T, diag(x) => "
            "x0*prod(1+dY_i); epsilon = h^beta. Rate models: df(0)=1, positive, non-increasing, continuous at tenors "
            "and equal to simple compounding of the initial curve for 1..6 periods (float and integer-typed tenors). Round 8: forward-market coefficient (re-typed per its docstring), tenors as array or list, coefficient functions evaluated on both sides of every tenor date, Libor drift through the class's function, a levelled coupling initialised again. Round 9: integer-typed initial values for the constant and diagonal coefficients (single and coupled scheme).",
            "Driver paths are the library's own random paths (numpy seeded per case), captured by a wrapper; the "
            "correctness of those paths is C15's and C03's subject."),
    "C11": ("3/C11",
            "Hypothesis-generated copula parameters, argument vectors and rectangles over 12 decades and all orthants; "
            "validity predicates (grounded, volume >= 0, margins = identity), monotonicity and round trip of the "
            "Clayton conditional distribution, high-precision (mpmath) mixed partial derivative",
            "Exploration: Clayton (theta in [0.2,5], and up to 150 for the conditional distribution and its inverse; eta "
            "in [0,1] incl. both end points), independent and completely "
            "dependent copulas in d=2,3: F vanishes when an argument is 0, every generated rectangle of (-inf,inf]^d "
            "(each coordinate positive, negative, straddling, touching zero, or with an infinite upper side) has "
            "volume >= 0, the one-dimensional margins (through the library's margin operator) are the identity, the "
            "2-margins of 3-d copulas are 2-increasing; the Clayton conditional distribution is in [0,1], "
            "non-decreasing with limits 0 and 1 and the stated inverse inverts it in both orders; x_first_derivative is "
            "compared with the 40-digit mixed partial of the formula times prod(u) (currently a listed known finding); "
            "one copula object evaluated on a generated sequence of vectors of dimension 2..4 must agree bitwise with "
            "fresh objects (object-reuse histories). Round 8: collapsed and thin rectangle sides; the volume operator is compared with the alternating sum over the corners; integer-typed theta, arguments and conditioning levels.",
            "Rectangles have at most one infinite side (F is infinite only at (inf,..,inf)); the re-typed Clayton "
            "formula used for differentiation is first compared with the library's value at the point."),
    "C12": ("3/C12",
            "Hypothesis-generated copula models and rectangles (every sign pattern, finite and half-infinite sides, "
            "index subsets, splits next to zero); oracles = non-negativity, additivity, fast path vs general formula, "
            "harness reference mass, quadrature of marginal densities, round trips, fresh-model differential",
            "Exploration: for copula models over all margin families (d=2,3; Clayton incl. eta end points, "
            "independent, dependent) the mass of generated rectangles not containing the origin must be >= 0, equal "
            "the general n-d formula on every sign pattern (incl. two straddling coordinates in 3-d), equal the "
            "harness reference (quadrature tail integrals + re-typed copula + own inclusion-exclusion), be additive "
            "over a split along any axis (incl. splits at +-1e-3..1e-12 next to zero and, in the sub-check "
            "end-points-at-zero, at exactly zero: intervals (a,0] and (0,b] against one-sided limits); marginal masses equal "
            "quadrature of the marginal density and bound the off-axis mass; sub-margin masses equal the I-margins; "
            "the inverse tail integral inverts the tail integral both ways; a fresh model returns the same values. Rectangle "
            "sides also hug an axis (end points 1e-4..1e-10 of the jump scale). Half of the cases also truncate a model "
            "after its construction (random window, as a copula chain does): fast path = general formula and whole-line "
            "mass = difference of the model's own marginal tail integrals. Round 8: levels beyond the mass of a half-line (finite activity) for the inverse tail integral. Round 9: rectangles with python-integer end points give the mass of the float ones.",
            "(a,0] contains the hyperplane x_k=0, so its reference mass is straddling minus positive piece; "
            "joint-density integration (dblquad) for Clayton is part of C01's copula sub-check."),
    "C17": ("3/C17",
            "model-based testing over operation lists on one Product object (evaluate path i / switch representation) "
            "against fresh objects; identity-vs-log metamorphic relation for every underlying; static payoff identities",
            "Exploration: for ten product kinds (four barrier types, vanilla, forward, digital, call spread, Asian "
            "call, CDS on a default time) every evaluation inside a generated history must equal the value a fresh "
            "product gives for that path in the current representation and must repeat; every underlying class must "
            "give the same value on (times, S, J) in identity representation and on the logarithms in log "
            "representation, equal to a harness definition (time-weighted average within [min,max], performances, "
            "default time = first jump below the threshold by a reference scan, n-th default non-decreasing in n); "
            "call-put=forward, call spread and butterfly = call combinations, digital call+put=1, KI+KO=vanilla with "
            "fresh and reused objects and each barrier leg = its definition from the path's extremes, vector strikes, "
            "notional linear; histories contain twin paths (same terminal value, different extremes); every underlying class (all dimensions) as one "
            "object valued on a sequence of paths with representation switches equals a fresh object bitwise; underlyings are "
            "valued on their own or through a Product switched with Product.update (the engines' route). Round 8: deep copies of the product mid-history (original looked at again at the end), integer default levels, pure-jump levels of 3e-18 and 4e5, jumps below -1 and -2 in log terms. Round 9: a Rainbow sub-check on 2..4 assets (value against the ranked weighted terminal values, evaluated twice; the vector handed over and the path unchanged; single-asset products evaluated afterwards read their own asset).",
            "Barrier products are kept in identity representation (the barrier is compared with the raw path); "
            "LookBack raises by design and is excluded."),
    "C18": ("3/C18",
            "Hypothesis-generated exponential models, maturities and strike ladders; validity predicates (parity, "
            "bounds, monotone, convex, digital, density) and differentials between COS, FFT, the Black-Scholes closed "
            "form and the VG/CGMY parametrisations; the admissible box is measured per case by a convergence sweep",
            "Exploration: for BS, HEM, Merton, VG and CGMY (five branches, y<=1.8), T in [0.1,3] and ladders of 3..9 "
            "strikes in the inner 40% of the pricer's truncation range (centred on the forward; the range itself must contain "
            "mean -+ 6 std of the expanded variable, both taken from the model's exponent by differences): call-put = df(F-K) with the model forward, "
            "max(df(F-K),0) <= call <= df F, monotone and convex in K, digital in [0,df], decreasing, inside the one-sided "
            "slopes of the call and = -dC/dK where the call is smooth at the step used, "
            "scalar = vector strikes, implied density >= 0 and of mass 1 (both up to the truncation error measured "
            "by the sweep), price() dispatch; COS = closed form on BS (1e-7), FFT = COS (1e-3, strikes >= 0.25 spot, "
            "log-return stddev <= 0.6, integrand singularity >= 1 from the real axis), VG = its CGMY parametrisation "
            "(1e-7). On smooth models (BS, HEM, Merton) a failed sweep is itself a violation. CFBlackScholes on both "
            "sides of the 1e-8 threshold of its degenerate branch (volatility, maturity): parity with its forward, "
            "bounds, time-value bound, digital in [0,df]. price() on call / put / forward products with a notional (parity, "
            "common scaling) and on a digital product (refused or = digital()); strike vectors of 129..301 entries = "
            "the same strikes priced 50 at a time; the model may be re-declared in another representation first. One COS / FFT pricer "
            "object used for a generated sequence of calls at several maturities equals fresh pricers bitwise. Round 8: a quarter of the non-BS models take the update route. Round 9: one model in six is built at another spot and the spot assigned afterwards.",
            "'Provably below tolerance' is replaced by a measured sweep (n=10000,L=10) vs (n=40000,L=20): cases "
            "outside are counted as rejected; FFT comparisons are restricted to the domain where its fixed step and "
            "damping are adequate (documented probes)."),
    "C19": ("3/C19",
            "Hypothesis-generated margins, copulas, thresholds, steps and credit grids; closed-form intensity vs "
            "inclusion-exclusion over the harness reference model and vs the chain's default-state rates; spread / "
            "present-value maps vs numerical integration of the CDS payoff",
            "Exploration: for d=1..3 (all margin families; Clayton incl. eta end points, independent, dependent) with "
            "thresholds inside (l,-h): the closed-form default intensity equals the Levy mass of the union of the "
            "default half-spaces computed from quadrature tail integrals and a re-typed copula (1e-6), is increasing "
            "in each threshold; survival = exp(-t theta), par spread = (1-R) theta, implied threshold inverts the "
            "spread, E[CDS payoff] under tau~Exp(theta) by quadrature of the payoff equals default leg - s x fixed leg "
            "and implied_cds_spread inverts it; on symmetric and asymmetric CTMCCredit grids the sum of the rates of "
            "the chain states with a coordinate below its threshold equals the closed form up to the independently "
            "computed mass outside the grid's box; after an in-place truncation of the model the same pricer object must "
            "agree with a fresh one and with the quadrature mass. Round 8: the CDS is written with keywords or positionally. Round 9: zero interest rate one time in eight; integer-typed thresholds; the closed forms asked again (same and new pricer object) after a chain was built on the model.",
            "Chain rates are those verified by C01; copula chains restricted to finite-variation margins."),
    "C20": ("3/C20",
            "Hypothesis-generated calibration problems with a solution by construction and operation lists over "
            "Parameters objects; round trip (calibrate -> rebuild -> reprice) and differential against direct "
            "construction",
            "Exploration: for HEM, Merton, VG and CGMY (incl. y<0, 0, 1, 1.6) the default ATM calibration must return "
            "a model of the same type whose ATM call equals the Black-Scholes price at the requested volatility "
            "(1e-8 spot) with the parameter inside its interval, or raise; calibrate_model_parameter on the default or "
            "another parameter against a call/put/forward priced by the same model at a drawn true value must return "
            "a value in the interval for which the rebuilt model reprices the target, or raise; the input model's "
            "parameters and cached fields must be unchanged; the model returned by the default calibration must equal a "
            "directly constructed one (cached fields, density, masses, second moments, omega, drift) and is calibrated again "
            "to the same, a 3e-6 / 1e-3 / 20% moved volatility under the same contract. Sequences of valid/invalid assignments and "
            "initialisation() calls followed by a rebuild must give the same cached fields, exponent, measure "
            "integrals, omega and process drift as direct construction; invalid assignments must raise and keep the "
            "old value. Round 8: Black-Scholes target written in the harness; spot re-assigned before the calibration; quiet short-dated targets (total standard deviation below 1e-3); omega compared with -psi(-i) of the object itself; a model is built before the parameter updates. Round 9: Black-Scholes in the parameter-update histories; cumulants and an at-the-money COS call of the rebuilt model against the directly built one.",
            "Prices through the library's COS pricer (C18's subject); 'raises' outcomes are counted by label."),
}

NOT_YET = "check not built yet in this session; will be claimed when its module exists"


def main():
    props = [json.loads(l) for l in open(os.path.join(ROOT, "properties.jsonl"))]
    checks, na = [], []
    for p in props:
        pid = p["id"]
        have = os.path.exists(os.path.join(ROOT, "props", f"{pid.lower()}.py")) and pid in CHECKS
        if not have:
            na.append({"property_id": pid, "reason": NOT_YET})
            continue
        sec, tech, text, note = CHECKS[pid]
        checks.append({
            "property_id": pid,
            "quick_cmd": f"./check {pid} --tier quick",
            "thorough_cmd": f"./check {pid} --tier thorough",
            "evidence_file": f"evidence/{pid}.json",
            "replay_cmd_template": f"./check {pid} --replay {{path}}",
            "engine": "vlib",
            "level_claimed": {"category": "exploration", "text": text, "design_ref": sec},
            "level_note": note,
            "technique": "property-based testing: " + tech,
        })
    m = {
        "version": 1,
        "setup_cmd": "./setup.sh",
        "hooks": {
            "guard": "RPYLIB_VERIF",
            "enable": "no source hooks are needed: checks import /repo's working tree (editable install) with "
                      "harness-side shims for gmpy2/tqdm on sys.path and wrap collaborators on instances at run "
                      "time; ./check exports RPYLIB_VERIF=1 for completeness",
            "baseline_off_cmd": "./tools_repo_tests.sh",
            "source_commits": [],
            "add_only": True,
        },
        "engines": [{
            "name": "vlib", "path": "vlib/run.py",
            "serves_properties": [c["property_id"] for c in checks],
            "kind_free_text": "Hypothesis-driven generated-input search against explicit oracles, sharded over "
                              "16 processes; exhaustive enumeration for small finite domains; shrunk failures "
                              "become JSON replay files replayed without Hypothesis",
        }],
        "checks": checks,
        "notes": "Genuine defects repaired in /repo are 'fix:' commits recorded in known_findings.json (fixed "
                 "entries suppress nothing); open findings are announced as KNOWN-FINDING. See DESIGN.md.",
        "not_applicable": na,
    }
    with open(os.path.join(ROOT, "MANIFEST.json"), "w") as f:
        json.dump(m, f, indent=1)
    print(f"claimed={len(checks)} not_applicable={len(na)}")


if __name__ == "__main__":
    main()
