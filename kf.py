#!/venv/bin/python
"""Development helper: add an entry to known_findings.json (never used by the checks at run time).
usage: kf.py fixed <prop> <commit> <key> <what>   |   kf.py open <prop> <key> <replay> <what>"""
import json, sys
p = '/verif/known_findings.json'
d = json.load(open(p))
kind = sys.argv[1]
if kind == 'fixed':
    _, _, prop, commit, key, what = sys.argv
    d['fixed'].append({"property": prop, "commit": commit, "key": key, "what": f"fixed: property={prop} {commit} {what}"})
else:
    _, _, prop, key, replay, what = sys.argv
    d['open'].append({"property": prop, "key": key, "replay": replay, "what": what})
json.dump(d, open(p, 'w'), indent=1)
