"""Harness-side stand-in for tqdm (not installed, not in the offline wheelhouse)."""


def tqdm(iterable=None, *args, **kwargs):
    return iterable
