"""Harness-side stand-in for gmpy2 (not installed, not in the offline wheelhouse).

rpylib only uses ``gmpy2.qdiv`` (exact rational division).  fractions.Fraction has the
documented meaning of qdiv and ``math.floor`` of a Fraction is exact.
"""
from fractions import Fraction


def qdiv(a, b=1):
    return Fraction(a, b)
