#!/bin/bash
# Offline, idempotent: hypothesis into /venv from the local wheelhouse (already present on this image).
cd "$(dirname "$0")" || exit 1
/venv/bin/python -c "import hypothesis" 2>/dev/null || \
  /venv/bin/pip install --no-index --find-links /opt/veriftools/wheels hypothesis || exit 1
PYTHONPATH=/verif/shims SYMPY_GROUND_TYPES=python /venv/bin/python -B -c "import rpylib, hypothesis, numpy, scipy; print('setup ok', hypothesis.__version__)"
