#!/bin/bash
# Runs the repository's pinned baseline with the verification guard OFF; prints the pytest tail.
cd /repo && env -u RPYLIB_VERIF /venv/bin/python -m pytest -ra -q -p no:cacheprovider --timeout=900 --continue-on-collection-errors "$@" 2>&1 | tail -8
