#!/venv/bin/python
"""Development-time sensitivity self-test (DESIGN 1.6).

For every mutant in mutants.json: copy /repo/rpylib to a scratch directory outside /repo and /verif,
apply the textual replacement, point the quick check at the copy through RPYLIB_SRC (development-only
variable), expect exit code 1, delete the copy.   usage: run_mutants.py [PROPERTY ...] [--jobs N]
Results are written to selftest/results.json.
"""
import json
import os
import shutil
import subprocess
import sys
import tempfile
from concurrent.futures import ThreadPoolExecutor

HERE = os.path.dirname(os.path.abspath(__file__))
ROOT = os.path.dirname(HERE)


def run_one(m):
    tmp = tempfile.mkdtemp(prefix="rpylib_mut_")
    try:
        shutil.copytree("/repo/rpylib", os.path.join(tmp, "rpylib"),
                        ignore=shutil.ignore_patterns("__pycache__", "tests"))
        path = os.path.join(tmp, "rpylib", m["file"])
        src = open(path).read()
        if src.count(m["find"]) < 1:
            return m["id"], "NOT-APPLICABLE (pattern not found)", ""
        src = src.replace(m["find"], m["replace"], m.get("count", 1))
        open(path, "w").write(src)
        env = dict(os.environ, RPYLIB_SRC=tmp, VERIF_NPROC=str(m.get("nproc", 4)))
        cmd = [os.path.join(ROOT, "check"), m["property"], "--tier", "quick", "--no-evidence"]
        if m.get("sub"):
            cmd += ["--sub", m["sub"]]
        p = subprocess.run(cmd, capture_output=True, text=True, env=env, timeout=3600)
        keys = [l.strip()[:200] for l in p.stdout.splitlines() if l.strip().startswith("violation")][:3]
        verdict = {1: "KILLED", 0: "SURVIVED", 2: "HARNESS-ERROR"}.get(p.returncode, f"exit {p.returncode}")
        tail = "" if p.returncode == 1 else "\n".join(p.stdout.splitlines()[-4:])
        return m["id"], verdict, " | ".join(keys) + tail
    finally:
        shutil.rmtree(tmp, ignore_errors=True)


def main():
    args = [a for a in sys.argv[1:] if not a.startswith("--")]
    jobs = 4
    if "--jobs" in sys.argv:
        jobs = int(sys.argv[sys.argv.index("--jobs") + 1])
        args = [a for a in args if a != str(jobs)]
    mutants = json.load(open(os.path.join(HERE, "mutants.json")))
    if args:
        mutants = [m for m in mutants if m["property"] in args or m["id"] in args]
    results = {}
    with ThreadPoolExecutor(max_workers=jobs) as ex:
        for mid, verdict, info in ex.map(run_one, mutants):
            results[mid] = {"verdict": verdict, "info": info}
            print(f"{mid:40s} {verdict}  {info[:220]}", flush=True)
    out = os.path.join(HERE, "results.json")
    prev = json.load(open(out)) if os.path.exists(out) else {}
    prev.update(results)
    json.dump(prev, open(out, "w"), indent=1, sort_keys=True)
    bad = [k for k, v in results.items() if v["verdict"] != "KILLED"]
    print(f"{len(results) - len(bad)}/{len(results)} killed; not killed: {bad}")
    return 1 if bad else 0


if __name__ == "__main__":
    sys.exit(main())
