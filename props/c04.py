"""C04 - drift compensation: the chain reproduces the mean of the (truncated) process it replaces;
small-jump variance is added to the diffusion coefficient only for infinite variation.

Oracle: quadrature of the model's own density.  The truncated process is the declared triplet
(a_decl, sigma, nu restricted to the grid's truncation interval) in the declared representation, so its
mean per unit time is  model.drift() + a_decl + integral of x (1 - c_decl(x)) nu(x) over the truncation.
"""
from __future__ import annotations

import itertools

import numpy as np
from hypothesis import strategies as st

from vlib.core import SubCheck, Violation
from vlib.copula_ref import cells_of_axis
from vlib.grids import GridRejected, build_grid, chain_model_spec, grid_spec
from vlib.models import _f, activity, branch_of, build_copula_model, build_model, quad_hints
from vlib.oracles import nu_integral

PROPERTY_ID = "C04"
INF = float("inf")
ASSUMPTIONS = [
    "per-state rates are those verified by C01 (create_q_vector / inversion closure)",
    "mean tolerance 1e-7 of the absolute first moments involved + 1e-10; copula margins: enlarged by the "
    "independently computed mass that the box truncation of the other coordinates removes",
]
REPS = ["ASIS", "ZERO", "CENTER", "ONEONE", "TILDE"]


def _product():
    from rpylib.product.payoff import Forward
    from rpylib.product.product import Product
    from rpylib.product.underlying import Spot

    return Product(payoff_underlying=Spot(), payoff=Forward(strike=1.0), maturity=1.0)


def _declare(model, rep):
    from rpylib.model.levymodel.levymodel import LevyRepresentation

    if rep != "ASIS":
        model.levy_triplet.set_representation(LevyRepresentation[rep])
    return model.levy_triplet.representation.name


def _compensated_first_moment(spec, rep_name, l, r):
    """integral over [l, r] of x (1 - c(x)) nu(x) for the cut-off c of the representation; returns (value, scale)."""
    nu = build_model(spec, force_exp=False).levy_triplet.nu
    hints = quad_hints(spec)
    fa, fv = activity(spec)
    if rep_name == "TILDE":
        rep_name = "ZERO" if fv else "ONEONE"
    if rep_name == "CENTER":
        return 0.0, 0.0
    if rep_name == "ZERO":
        v, s, _ = nu_integral(nu, l, r, 1, hints)
        return v, s
    # ONEONE: |x| >= 1 only
    val, sc = 0.0, 0.0
    if r > 1:
        v, s, _ = nu_integral(nu, 1.0, r, 1, hints)
        val += v
        sc += s
    if l < -1:
        v, s, _ = nu_integral(nu, l, -1.0, 1, hints)
        val += v
        sc += s
    return val, sc


@st.composite
def strat_1d(draw, tier):
    g = draw(grid_spec(max_refine=2))
    # very coarse level 0: a central cell reaching beyond [-1, 1] (fixed number of points, no refinement)
    if draw(st.integers(0, 9)) == 0:
        g = {"type": "uniform-fixed", "h_rel": 1.0, "h_abs": draw(_f(2.2, 6.0)), "dimension": 1, "n": draw(st.integers(4, 40)),
             "refine": 0}
    model = draw(chain_model_spec())
    if g.get("h_abs") and draw(st.booleans()):
        # (the cut-off of the large-jump compensator only matters for infinite variation: built, not waited for)
        model = draw(chain_model_spec(families=("cgmy",), cgmy_branches=("y=1", "1<y<2")))
    if model["family"] in ("cgmy", "vg") and draw(st.integers(0, 2)) == 0:
        # a model of the user's own: the same jumps plus a Brownian component (no library family combines a diffusion
        # coefficient with infinite-variation jumps); plain Levy model, no exponential wrapper
        model = dict(model, exp=None, added_sigma=draw(st.sampled_from([0.05, 0.3, 1.5])))
    return {"model": model, "grid": g,
            "rep": draw(st.sampled_from(REPS)),
            "method": draw(st.sampled_from(["INVERSION", "BINARYSEARCHTREEADAPTED1D", "BINARYSEARCHTREE"]))}


def body_1d(case):
    from rpylib.distribution.sampling import SamplingMethod
    from rpylib.distribution.samplingfactory import create_q_vector
    from rpylib.process.markovchain.markovchain import MarkovChainProcess

    out = []
    spec, gspec, rep = case["model"], case["grid"], case["rep"]
    fa, fv = activity(spec)
    if rep == "ZERO" and not fv:
        return [Violation("REJECTED", "ZERO representation needs finite variation")]
    model = build_model(spec)
    rep_name = _declare(model, rep)
    a_decl = float(model.levy_triplet.a)
    try:
        grid = build_grid(gspec, model, spec)
    except GridRejected as e:
        return [Violation("REJECTED", str(e))]
    if len(grid.axes[0]) > 1500:
        return [Violation("REJECTED", "axis larger than the per-case bound")]
    proc = MarkovChainProcess(model=model, method=SamplingMethod[case["method"]], grid=grid)
    proc.initialisation(_product())
    br = branch_of(spec)
    tag = f"C04/1d/{br}/declared={rep_name}"
    detail = f"model={spec} grid={gspec} declared={rep}"
    l, r = (float(v) for v in grid.truncations[0])
    axis = np.array(grid.axes[0], dtype=float)
    o = grid.origin_coordinate.value
    q = np.array(create_q_vector(proc.model.levy_triplet.nu, grid), dtype=float)

    # mean per unit time
    chain_mean = float(proc.process_drift()) + float(np.dot(axis, q))
    comp, scale = _compensated_first_moment(spec, rep_name, l, r)
    ref_mean = float(model.drift()) + a_decl + comp
    tol = 1e-7 * (scale + float(np.dot(np.abs(axis), q)) + abs(a_decl)) + 1e-10
    if not np.isfinite(chain_mean) or abs(chain_mean - ref_mean) > tol:
        out.append(Violation(f"{tag}/mean-of-chain-differs-from-truncated-process",
                             f"chain drift + sum x_k q_k = {chain_mean!r}; model.drift + a_decl + compensated first "
                             f"moment over [{l},{r}] = {ref_mean!r} (a_decl={a_decl!r}); {detail}"))
    # deterministic path uses that drift
    times = np.array([0.0, 0.5, 2.0])
    dp = np.asarray(proc.deterministic_path(times), dtype=float).ravel()
    x0 = float(np.log(spec["exp"]["spot"])) if spec["exp"] else 0.0
    if not np.allclose(dp, x0 + float(proc.process_drift()) * times, rtol=1e-13, atol=1e-13):
        out.append(Violation(f"C04/1d/deterministic-path", f"{dp} vs x0={x0} drift={proc.process_drift()}; {detail}"))

    # variance: small jumps -> Brownian only for infinite variation
    base_nu = build_model(spec, force_exp=False).levy_triplet.nu
    hints = quad_hints(spec)
    sigma = float(spec["params"].get("sigma", 0.0)) if spec["family"] in ("hem", "merton") else 0.0
    if spec.get("added_sigma"):
        sigma = float(spec["added_sigma"])
        out.append(Violation("LABEL:own-brownian-component/" + ("finite-variation" if fv else "infinite-variation")))
    extra = float(proc.equivalent_diffusion_coefficient) ** 2 - sigma ** 2
    h = float(grid.h)
    if fv:
        if abs(extra) > 1e-14 * max(1.0, sigma ** 2):
            out.append(Violation(f"C04/1d/{br}/variance-added-for-finite-variation",
                                 f"equivalent coefficient^2 - sigma^2 = {extra!r}; {detail}"))
    elif h > 2.0:
        # central cell beyond [-1, 1]: the library leaves the variance of the jumps with 1 < |x| <= h/2 out; whether a
        # step that coarse is in the intended domain is not for this check to say (the mean, above, is decided)
        out.append(Violation("LABEL:step-above-2/small-jump-variance-not-decided"))
    else:
        small, sc2, _ = nu_integral(base_nu, -h / 2, h / 2, 2, hints)
        if abs(extra - small) > 1e-7 * small + 1e-13:
            out.append(Violation(f"C04/1d/{br}/small-jump-variance",
                                 f"equivalent coefficient^2 - sigma^2 = {extra!r}, integral of x^2 nu over the "
                                 f"central cell = {small!r}; {detail}"))
    # variance of the jump part vs the model's, within the per-cell oscillation of x^2
    cells = cells_of_axis(axis, o, (lambda x, y: float(grid.middle(x, y))) if gspec["type"] == "probstep" else None)
    var_chain = float(np.dot(axis ** 2, q))
    var_ref = 0.0
    if l < -h / 2:
        var_ref += nu_integral(base_nu, l, -h / 2, 2, hints)[0]
    if r > h / 2:
        var_ref += nu_integral(base_nu, h / 2, r, 2, hints)[0]
    osc = sum((max(a * a, b * b) - min(a * a, b * b)) * q[k] for k, (a, b) in enumerate(cells) if k != o)
    if abs(var_chain - var_ref) > osc + 1e-7 * var_ref + 1e-12:
        out.append(Violation(f"C04/1d/{br}/jump-variance-outside-oscillation-bound",
                             f"sum x_k^2 q_k = {var_chain!r}, integral x^2 nu outside the central cell = {var_ref!r}, "
                             f"oscillation bound {osc!r}; {detail}"))
    return out


def classify_1d(case):
    spec, g = case["model"], case["grid"]
    fa, fv = activity(spec)
    labels = [branch_of(spec), g["type"], f"refine={g['refine']}", f"rep={case['rep']}",
              "exp" if spec["exp"] else "plain", "finite-variation" if fv else "infinite-variation"]
    if g.get("h_abs"):
        labels.append("step-above-2" + ("" if fv else "/infinite-variation"))
    nt = g["refine"] >= 1 or g["type"] != "uniform" or case["rep"] != "ASIS" or not fv
    return labels, nt


# ------------------------------------------------------------------------------------ copula margins
@st.composite
def strat_copula(draw, tier):
    from props.c01 import strat_copula as base

    case = draw(base(tier))
    # a third of the cases mix variation types: one margin of infinite variation next to finite-variation ones (each
    # margin's compensator cut-off is its own; a model-wide flag gives the finite-variation margin a wrong mean)
    if len(case["margins"]) == 2 and draw(st.integers(0, 2)) == 0:  # (d=2: the constructor cost grows with d)
        from vlib.grids import chain_model_spec

        i = draw(st.integers(0, len(case["margins"]) - 1))
        for j, m in enumerate(case["margins"]):
            new = draw(chain_model_spec(families=("cgmy",), exp=False, cgmy_branches=["y=1", "1<y<2"])) if j == i else \
                (m if activity(m)[1] else draw(chain_model_spec(exp=False, cgmy_branches=["y<0", "y=0", "0<y<1"])))
            new["exp"] = m["exp"]
            case["margins"][j] = new
    case["reps"] = [draw(st.sampled_from(REPS)) for _ in case["margins"]]
    # with independent components the small jumps of an infinite-variation margin lie on its axis: the variance added to
    # the diffusion has a one-dimensional reference (half of those cases)
    if any(not activity(m)[1] for m in case["margins"]) and draw(st.booleans()):
        case["copula"] = {"type": "independent"}
    return case


def body_copula(case):
    from props.c01 import build_copula_grid
    from rpylib.distribution.sampling import SamplingMethod
    from rpylib.distribution.samplingfactory import create_sampling_inversion_method
    from rpylib.process.markovchain.markovchainlevycopula import MarkovChainLevyCopula

    out = []
    d = len(case["margins"])
    for m, rep in zip(case["margins"], case["reps"]):
        if rep == "ZERO" and not activity(m)[1]:
            return [Violation("REJECTED", "ZERO representation needs finite variation")]
    model = build_copula_model({"margins": case["margins"], "copula": case["copula"]})
    rep_names = [_declare(mm, rep) for mm, rep in zip(model.models, case["reps"])]
    a_decl = [float(mm.levy_triplet.a) for mm in model.models]
    try:
        grid = build_copula_grid(case, model)
    except GridRejected as e:
        return [Violation("REJECTED", str(e))]
    npts = int(np.prod([len(a) for a in grid.axes]))
    if npts > (500 if d == 2 else 350) or any(len(a) < 5 for a in grid.axes):
        return [Violation("REJECTED", f"{npts} states: outside the per-case bound")]
    proc = MarkovChainLevyCopula(levy_copula_model=model, grid=grid, method=SamplingMethod[case["method"]])
    proc.initialisation(_product())
    lam = float(proc.intensity_of_jumps)
    inv = create_sampling_inversion_method(grid, proc.model, lam, True)
    oc = tuple(grid.origin_coordinate.value)
    axes = [np.array(a, dtype=float) for a in grid.axes]
    states = [s for s in itertools.product(*[range(len(a)) for a in axes]) if s != oc]
    rates = {s: float(inv.probability_to_jump_to_state(tuple(si - oi for si, oi in zip(s, oc)))) * lam for s in states}
    drift = np.asarray(proc.process_drift(), dtype=float).ravel()
    detail = f"case={ {k: case[k] for k in ('margins', 'copula', 'grid', 'reps')} }"
    # mass removed by the box truncation of each coordinate (harness quadrature)
    outside = []
    for k, m in enumerate(case["margins"]):
        nu = build_model(m, force_exp=False).levy_triplet.nu
        l, r = (float(v) for v in grid.truncations[k])
        hints = quad_hints(m)
        outside.append(nu_integral(nu, -INF, l, 0, hints)[0] + nu_integral(nu, r, INF, 0, hints)[0])
    for k, m in enumerate(case["margins"]):
        l, r = (float(v) for v in grid.truncations[k])
        chain_mean = float(drift[k]) + sum(axes[k][s[k]] * rt for s, rt in rates.items())
        comp, scale = _compensated_first_moment(m, rep_names[k], l, r)
        drift_k = float(np.asarray(model.models[k].drift()).ravel()[0])
        ref_mean = drift_k + a_decl[k] + comp
        leak = max(abs(l), abs(r)) * sum(outside[i] for i in range(d) if i != k)
        first_abs = sum(abs(axes[k][s[k]]) * rt for s, rt in rates.items())
        tol = 1e-6 * (scale + first_abs + abs(a_decl[k])) + 1e-9 + leak
        br = branch_of(m)
        if not np.isfinite(chain_mean) or abs(chain_mean - ref_mean) > tol:
            out.append(Violation(f"C04/copula/d{d}/{br}/declared={rep_names[k]}/margin-mean-differs",
                                 f"margin {k}: chain drift + sum x_k rate = {chain_mean!r}; truncated margin mean "
                                 f"= {ref_mean!r}; allowed leak {leak:.3g}; {detail}"))
    # variance added to the diffusion part: nothing for finite variation, a positive semi-definite matrix otherwise
    dm = np.asarray(proc._path_simulation.diffusion_matrix, dtype=float)
    sig2 = np.diag([float(build_model(m, force_exp=False).levy_triplet.sigma) ** 2 for m in case["margins"]])
    fv = all(activity(m)[1] for m in case["margins"])
    if dm.shape != (d, d) or not np.all(np.isfinite(dm)):
        out.append(Violation(f"C04/copula/d{d}/diffusion-matrix-not-finite", f"{dm.tolist()}; {detail}"))
    else:
        added = dm @ dm.T - sig2
        scale = max(1e-300, float(np.abs(dm @ dm.T).max()))
        if fv and float(np.abs(added).max()) > 1e-10 * scale + 1e-300:
            out.append(Violation(f"C04/copula/d{d}/finite-variation/variance-added-to-the-diffusion",
                                 f"D D^T = {(dm @ dm.T).tolist()} vs diag(sigma^2) = {np.diag(sig2).tolist()}; {detail}"))
        if not fv and float(np.linalg.eigvalsh((added + added.T) / 2).min()) < -1e-9 * scale:
            out.append(Violation(f"C04/copula/d{d}/infinite-variation/added-variance-not-positive-semi-definite",
                                 f"D D^T - diag(sigma^2) = {added.tolist()}; {detail}"))
        elif not fv and d == 2:
            # (a) what is added is the covariance matrix of the small jumps as the library's own function computes it (same
            #     quadrature, so the comparison is sharp): added as a covariance, not as a "standard deviation"
            from rpylib.process.markovchain.markovchainlevycopula import vol_adjustment_ij

            h = float(grid.h)
            cov = np.array([[float(vol_adjustment_ij(i, j, h, proc.model)) for j in range(d)] for i in range(d)])
            # (the quadratures may leave that matrix slightly indefinite - a diagonal entry integrated to 0 next to a non-zero
            # covariance; its square root then belongs to its positive part, which differs by the negative eigenvalue)
            neg = max(0.0, -float(np.linalg.eigvalsh((cov + cov.T) / 2).min()))
            if float(np.abs(added - cov).max()) > 1e-8 * float(np.abs(cov).max()) + 2.0 * neg + 1e-14:
                out.append(Violation(f"C04/copula/d{d}/infinite-variation/added-variance-is-not-the-small-jump-covariance",
                                     f"D D^T - diag(sigma^2) = {added.tolist()}, covariance of the jumps inside the central "
                                     f"cell (vol_adjustment_ij) = {cov.tolist()}; {detail}"))
            # (b) with independent components that covariance has a one-dimensional reference: on axis k the jumps of margin
            #     k with |x| < h/2; the library integrates with epsabs = 1e-3 (times 2/h): that bound is the tolerance
            if case["copula"]["type"] == "independent" and h <= 2.0:
                ref = []
                for m in case["margins"]:
                    nu = build_model(m, force_exp=False).levy_triplet.nu
                    # (every margin: the copula model as a whole is of infinite variation, and the jumps of a
                    # finite-variation margin inside the central cell are not simulated either)
                    ref.append(nu_integral(nu, -h / 2, h / 2, 2, quad_hints(m))[0])
                ref = np.diag(ref)
                bound = 2e-3 / h ** (d - 1) + 1e-3 * float(np.abs(ref).max())
                if float(np.abs(cov - ref).max()) > bound:
                    out.append(Violation(f"C04/copula/d{d}/infinite-variation/small-jump-covariance",
                                         f"independent components: vol_adjustment_ij = {cov.tolist()}, second moments of the "
                                         f"margins over (-h/2, h/2) = {np.diag(ref).tolist()} (quadrature bound {bound:.3g}); {detail}"))
            if case["copula"]["type"] == "independent":
                out.append(Violation("LABEL:infinite-variation-independent-components"))
    return out


def classify_copula(case):
    d = len(case["margins"])
    labels = [f"d={d}", case["copula"]["type"], case["grid"]["type"]] + \
             sorted({branch_of(m) for m in case["margins"]}) + sorted({f"rep={r}" for r in case["reps"]})
    fv = {activity(m)[1] for m in case["margins"]}
    if len(fv) == 2:
        labels.append("mixed-variation-types")
    return labels, True


SUBCHECKS = [
    SubCheck("mean-variance-1d", body_1d, classify_1d,
             rule="(family, parameters, exp/plain) x grid constructor x 0..2 refinements x declared "
                  "representation in {as constructed, ZERO (finite variation only), CENTER, ONEONE, TILDE}; "
                  "non-trivial = refined or non-uniform grid or re-declared representation or infinite variation",
             strategy=strat_1d, budget={"quick": 720, "thorough": 3000},
             shards={"quick": 16, "thorough": 16},
             essential_labels=("infinite-variation", "rep=CENTER", "rep=ONEONE", "step-above-2/infinite-variation",
                               "own-brownian-component/infinite-variation")),
    SubCheck("mean-copula-margins", body_copula, classify_copula,
             rule="copula chains d=2,3 (as in C01) x declared representation per margin: every margin's mean "
                  "per unit time (drift + sum over all states of x_k * rate) vs its truncated margin mean, with "
                  "the box-truncation leak of the other coordinates added to the tolerance",
             strategy=strat_copula, budget={"quick": 64, "thorough": 640},
             shards={"quick": 16, "thorough": 16},
             essential_labels=("mixed-variation-types", "infinite-variation-independent-components")),
]
