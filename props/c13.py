"""C13 - state grids are well formed and refinement nests them.

History = constructor call followed by 0..4 refine() calls; after every step the axes, h, origin
coordinate and truncations are compared with what the previous step implies (reference model: the
pre-refinement axes and the grid's own middle()).  Tail / per-step probabilities are checked against
quadrature of the model's density.
"""
from __future__ import annotations

import copy
import math

import numpy as np
from hypothesis import strategies as st

from vlib.core import SubCheck, Violation
from vlib.grids import chain_model_spec, model_scale
from vlib.models import _f, branch_of, build_copula_model, build_model, copula_spec, quad_hints
from vlib.oracles import nu_integral

PROPERTY_ID = "C13"
INF = float("inf")
ASSUMPTIONS = [
    "spatial step h = h_rel * (model jump scale), h_rel in [0.08, 1]: each half-axis then has >= 2 states; for the "
    "model-based uniform grid also coarse steps, h_rel in [1.5, 14] (half-axes of one or two states)",
    "two-sided jump laws only (HEM p in [0.05,0.95], Merton mu_j <= 2 sigma_j): the truncation search "
    "divides by the mass of each half-line",
    "credit thresholds strictly inside (l, -h)",
]

CTORS = ["uniform", "uniform-fixed", "geometric", "geometric-bounds", "probstep", "credit", "hand-made"]


@st.composite
def strat_case(draw, tier):
    ctor = draw(st.sampled_from(CTORS))
    d = 1 if ctor == "probstep" else draw(st.sampled_from([1, 1, 2, 3]))
    exp = draw(st.booleans())
    margins = [draw(chain_model_spec(exp=exp)) for _ in range(d)]
    case = {"ctor": ctor, "d": d, "margins": margins, "h_rel": draw(_f(0.08, 1.0)),
            "refines": draw(st.integers(0, 4 if tier == "thorough" else 3))}
    if d > 1:
        case["copula"] = draw(copula_spec())
    if ctor in ("uniform", "geometric"):
        case["p"] = draw(st.sampled_from([0.999, 0.9999, 0.99999]))
    if ctor in ("uniform", "geometric") and draw(st.integers(0, 3)) == 0:
        case["sde_m"] = draw(st.sampled_from([m_ for m_ in (1, 2, 3, 5) if m_ != d]))
    if ctor == "uniform" and draw(st.integers(0, 3)) == 0:
        # a step that is coarse next to the truncation bounds: half-axes of one or two states
        case["h_rel"] = draw(_f(1.5, 14.0))
        case["p"] = draw(st.sampled_from([0.99, 0.999, 0.99999]))
        case["coarse"] = True
    # weakly damped jumps (the truncation bounds lie tens of units from the origin; the geometric axis keeps its size)
    if ctor == "geometric" and draw(st.integers(0, 3)) == 0:
        margins[0] = {"family": "cgmy", "exp": margins[0]["exp"],
                      "params": {"c": draw(_f(0.1, 2.0)), "g": draw(_f(0.1, 0.3)), "m": draw(_f(0.1, 0.3)),
                                 "y": draw(st.sampled_from([-0.5, 0.3, 0.7]))}}
        case["heavy_tails"] = True
    if ctor == "uniform-fixed":
        case["n"] = draw(st.integers(2, 60))
    if ctor in ("geometric", "geometric-bounds"):
        case["k"] = draw(st.integers(2, 10))
    if ctor == "geometric-bounds":
        case["l_rel"], case["r_rel"] = draw(_f(3.0, 40.0)), draw(_f(3.0, 40.0))
    if ctor == "probstep":
        case["p_step"] = draw(_f(0.02, 0.2))
        case["refines"] = min(case["refines"], 2)
    if ctor == "credit":
        case["a_frac"] = [draw(_f(0.05, 0.95)) for _ in range(d)]
        case["symmetric"] = draw(st.booleans())
    if ctor == "hand-made":
        # the public base constructor with one array per axis: same h and origin index, different extents per axis
        case["o"] = draw(st.integers(2, 6))
        case["nright"] = [draw(st.integers(2, 8)) for _ in range(d)]
        case["stretch"] = [[draw(_f(1.0, 3.0)), draw(_f(1.0, 3.0))] for _ in range(d)]
    case["refine_on_copy"] = draw(st.booleans())
    return case


def _model(case):
    if case["d"] == 1:
        model = build_model(case["margins"][0], force_exp=False if case.get("sde_m") else None)
    else:
        model = build_copula_model({"margins": case["margins"], "copula": case["copula"]})
    if case.get("sde_m"):
        # the grid of an SDE dX = a dY lives on the states of its driver Y (d axes), whatever the number m of components of X
        from rpylib.model.levydrivensde.levydrivensde import Constant, LevyDrivenSDEModel

        m = int(case["sde_m"])
        return LevyDrivenSDEModel(driver=model, x0=np.ones(m), a=Constant(m=m, d=case["d"], constant=0.5))
    return model


def _h(case):
    sc = min(model_scale(m) for m in case["margins"])
    return float(f"{case['h_rel'] * sc:.5g}")


def _tail_ratio(spec, lo, hi, h, side, outside=False):
    """share of the one-sided mass beyond h/2 that lies inside the bound (outside=True: beyond the bound)"""
    nu = build_model(spec, force_exp=False).levy_triplet.nu
    hints = quad_hints(spec)
    if side == "right":
        part, _, _ = nu_integral(nu, hi, INF, 0, hints) if outside else nu_integral(nu, h / 2, hi, 0, hints)
        tot, _, _ = nu_integral(nu, h / 2, INF, 0, hints)
    else:
        part, _, _ = nu_integral(nu, -INF, lo, 0, hints) if outside else nu_integral(nu, lo, -h / 2, 0, hints)
        tot, _, _ = nu_integral(nu, -INF, -h / 2, 0, hints)
    return part / tot


def body(case):
    from rpylib.grid import spatial as S

    out = []
    ctor, d = case["ctor"], case["d"]
    model = _model(case)
    h = _h(case)
    tag = f"C13/{ctor}/d{d}"
    root_failures = []

    # observe failures of the constructor's own root finding (probability-step axes swallow them)
    orig_root = S.scipy.optimize.root_scalar

    def spy_root(*a, **k):
        try:
            return orig_root(*a, **k)
        except Exception as e:  # noqa: BLE001
            root_failures.append(repr(e))
            raise

    S.scipy.optimize.root_scalar = spy_root
    try:
        try:
            if ctor == "uniform":
                g = S.CTMCUniformGrid(h=h, model=model, truncation_probability=case["p"])
            elif ctor == "uniform-fixed":
                g = S.CTMCUniformGrid.create_from_fixed_nb_of_points(h=h, nb_of_points=case["n"], dimension=d)
            elif ctor == "geometric":
                try:
                    g = S.CTMCGridGeometric(h=h, model=model, nb_of_points_on_each_side=case["k"],
                                            truncation_probability=case["p"])
                except ValueError as e:
                    # weakly damped margins: the bound lies beyond the root search's bracket [-100, 100] and the solver
                    # refuses (f(a) and f(b) of one sign) - a rejection, not a grid
                    if case.get("heavy_tails") and "sign" in str(e):
                        return [Violation("REJECTED", f"truncation bound outside the solver's bracket: {e}")]
                    raise
            elif ctor == "geometric-bounds":
                sc = min(model_scale(m) for m in case["margins"])
                bounds = (-max(case["l_rel"] * sc, 2.5 * h), max(case["r_rel"] * sc, 2.5 * h))
                g = S.CTMCGridGeometric.create_with_bounds(h=h, truncations=bounds, dimension=d,
                                                           nb_of_points_on_each_side=case["k"])
            elif ctor == "probstep":
                g = S.CTMCGridProbabilityStep(h=h, model=model, minimum_probability_step=case["p_step"])
            elif ctor == "hand-made":
                axes = []
                for k in range(d):
                    sl, sr = case["stretch"][k]
                    left = [-h * (1 + (i - 1) * sl) for i in range(case["o"], 0, -1)]
                    right = [h * (1 + (i - 1) * sr) for i in range(1, case["nright"][k] + 1)]
                    axes.append(np.array(left + [0.0] + right, dtype=float))
                g = S.CTMCGrid(h=h, origin_coordinate=case["o"], axes=axes)
            else:
                l, r = S.compute_truncation(model=model, h=h)
                levels = [l + f * (-h - l) for f in case["a_frac"]]
                level_a = levels[0] if d == 1 else levels
                try:
                    g = S.CTMCCredit(h=h, level_a=level_a, model=model, symmetric_grid=case["symmetric"])
                except ValueError as e:
                    # documented rejection: a mirrored threshold does not fit inside the right truncation
                    eps = [min(abs(l - a) / 2, abs(a + h) / 2) for a in levels]
                    if d > 1 and case["symmetric"] and any(-a + e >= r for a, e in zip(levels, eps)):
                        return [Violation("REJECTED", f"constructor rejected the thresholds: {e}")]
                    raise
        finally:
            pass
    finally:
        S.scipy.optimize.root_scalar = orig_root

    # ------------------------------------------------------------ well-formedness after construction
    def well_formed(g, step, h_expected, origin_expected, trunc_expected):
        ok = True
        if len(g.axes) != d or g.dimension != d:
            out.append(Violation(f"{tag}/{step}/dimension", f"{len(g.axes)} axes for d={d}"))
            return False
        oc = [g.origin_coordinate.value] if d == 1 else list(g.origin_coordinate.value)
        if origin_expected is not None and oc != origin_expected:
            out.append(Violation(f"{tag}/{step}/origin-coordinate", f"origin {oc} expected {origin_expected}"))
            ok = False
        if not math.isclose(g.h, h_expected, rel_tol=1e-15):
            out.append(Violation(f"{tag}/{step}/h", f"h={g.h} expected {h_expected}"))
            ok = False
        for k, axis in enumerate(g.axes):
            axis = np.asarray(axis, dtype=float)
            if not np.all(np.isfinite(axis)):
                out.append(Violation(f"{tag}/{step}/non-finite-state", f"axis {k}: {axis}"))
                return False
            if not np.all(np.diff(axis) > 0):
                out.append(Violation(f"{tag}/{step}/not-strictly-increasing",
                                     f"axis {k} h={g.h}: {axis[:6]}...{axis[-6:]}"))
                ok = False
            o = oc[k]
            if not (0 < o < len(axis) - 1) or axis[o] != 0.0:
                out.append(Violation(f"{tag}/{step}/zero-not-at-origin-index", f"axis {k} origin {o}: {axis[max(0,o-2):o+3]}"))
                ok = False
                continue
            if axis[o - 1] != -g.h or axis[o + 1] != g.h:
                out.append(Violation(f"{tag}/{step}/neighbours-of-zero",
                                     f"axis {k}: {axis[o-1]}, 0, {axis[o+1]} with h={g.h}"))
                ok = False
            tr = g.truncations[k]
            if (axis[0], axis[-1]) != (tr[0], tr[1]):
                out.append(Violation(f"{tag}/{step}/end-points-vs-truncations",
                                     f"axis {k} ends {(axis[0], axis[-1])} reported {tr}"))
                ok = False
            if trunc_expected is not None and (tr[0], tr[1]) != trunc_expected[k]:
                out.append(Violation(f"{tag}/{step}/truncations-changed",
                                     f"axis {k}: {tr} was {trunc_expected[k]}"))
                ok = False
        return ok

    # per-case size bound: margins of very different scales under one step make model-based axes of 10^5 states and more
    if max(len(a) for a in g.axes) * 2 ** case["refines"] > 1.5e5:
        return [Violation("REJECTED", "axis larger than the per-case bound")]
    # sound domain: every half-axis has at least two states (see ASSUMPTIONS)
    for k, axis in enumerate(g.axes):
        o = g.origin_coordinate.value if d == 1 else g.origin_coordinate.value[k]
        if ctor == "uniform-fixed" and (o < 2 or len(axis) - o - 1 < 2):
            return [Violation("REJECTED", "half-axis with fewer than two states")]

    if not well_formed(g, "construct", h, None, None):
        return out
    if ctor == "geometric-bounds":
        for k, axis in enumerate(g.axes):
            if abs(float(axis[0]) - bounds[0]) > 1e-12 * abs(bounds[0]) or abs(float(axis[-1]) - bounds[1]) > 1e-12 * abs(bounds[1]):
                out.append(Violation(f"{tag}/construct/end-points-are-not-the-bounds-passed",
                                     f"axis {k}: [{axis[0]}, {axis[-1]}] for bounds {bounds}"))
                return out

    # ------------------------------------------------------------ promised probabilities
    if ctor in ("uniform", "geometric"):
        l, r = g.truncations[0]
        # l = min over margins, r = max over margins of the per-margin bounds: at least one margin attains
        # the requested probability on each side and none exceeds ... (others are truncated further out)
        ratios_r = [_tail_ratio(m, l, r, h, "right") for m in case["margins"]]
        ratios_l = [_tail_ratio(m, l, r, h, "left") for m in case["margins"]]
        p = case["p"]
        # (a bound that would fall inside (0, h) is the first state itself, which keeps more than the requested share)
        clipped_r, clipped_l = (ctor == "uniform" and r == h), (ctor == "uniform" and l == -h)
        bad_r = (min(ratios_r) < p - 1e-6) if clipped_r else abs(min(ratios_r) - p) > 1e-6
        bad_l = (min(ratios_l) < p - 1e-6) if clipped_l else abs(min(ratios_l) - p) > 1e-6
        if clipped_r or clipped_l:
            out.append(Violation("LABEL:uniform/bound-at-the-first-state"))
        if bad_r or bad_l:
            out.append(Violation(f"{tag}/construct/tail-probability",
                                 f"requested {p}; right ratios {ratios_r}; left ratios {ratios_l}; bounds {l, r}"))
        else:
            # the same promise seen from the tail: the mass left outside is (1 - p) of the one-sided mass, in relative terms
            out_r = max(_tail_ratio(m, l, r, h, "right", outside=True) for m in case["margins"])
            out_l = max(_tail_ratio(m, l, r, h, "left", outside=True) for m in case["margins"])
            if (not clipped_r and abs(out_r - (1 - p)) > 1e-4 * (1 - p)) or (not clipped_l and abs(out_l - (1 - p)) > 1e-4 * (1 - p)):
                out.append(Violation(f"{tag}/construct/tail-probability/mass-left-outside",
                                     f"requested 1 - p = {1 - p!r}; outside on the right {out_r!r}, on the left {out_l!r}; "
                                     f"bounds {l, r}; margins {case['margins']}"))
    if ctor == "probstep" and not root_failures:
        spec = case["margins"][0]
        nu = build_model(spec, force_exp=False).levy_triplet.nu
        hints = quad_hints(spec)
        lam = nu_integral(nu, -INF, -h / 2, 0, hints)[0] + nu_integral(nu, h / 2, INF, 0, hints)[0]
        axis = g.axes[0]
        o = g.origin_coordinate.value
        ps = case["p_step"]
        for i in list(range(o + 1, len(axis) - 2)) + list(range(1, o - 1)):
            m = nu_integral(nu, axis[i], axis[i + 1], 0, hints)[0] / lam
            if abs(m - ps) > 1e-6:
                out.append(Violation(f"{tag}/construct/per-step-probability",
                                     f"gap [{axis[i]}, {axis[i+1]}] carries {m} of the intensity, "
                                     f"requested {ps}; h={h}; model={spec}"))
                break
    if ctor == "probstep":
        spec = case["margins"][0]
        nu = build_model(spec, force_exp=False).levy_triplet.nu
        hints = quad_hints(spec)
        axis = g.axes[0]
        o = g.origin_coordinate.value
        lam = g.intensity_of_jumps
        for i in range(len(axis) - 1):
            xi, xip = float(axis[i]), float(axis[i + 1])
            mid = g.middle(xi, xip)
            if not xi < mid < xip:
                out.append(Violation(f"{tag}/construct/middle-outside-gap", f"middle({xi},{xip})={mid}"))
                break
            if xi == 0 or xip == 0:
                if mid != (xi + xip) / 2:
                    out.append(Violation(f"{tag}/construct/central-cell-boundary", f"middle({xi},{xip})={mid}"))
                continue
            ml = nu_integral(nu, xi, mid, 0, hints)[0]
            mr = nu_integral(nu, mid, xip, 0, hints)[0]
            dens = max(float(nu(xi)), float(nu(xip)), float(nu(mid)))
            if abs(ml - mr) > 1e-7 * lam + 4e-10 * dens + 1e-9 * (ml + mr):
                out.append(Violation(f"{tag}/construct/middle-does-not-halve-gap-mass",
                                     f"gap [{xi},{xip}] middle {mid}: {ml} vs {mr}; model={spec}"))
                break
    if ctor == "credit":
        l, r = g.truncations[0]
        levels = [l + f * (-h - l) for f in case["a_frac"]]
        for k, axis in enumerate(g.axes):
            a = levels[k]
            if abs(0.5 * (axis[1] + axis[2]) - a) > 1e-12 * max(1.0, abs(a)):
                out.append(Violation(f"{tag}/construct/threshold-not-on-cell-boundary",
                                     f"axis {k}: states {axis[1]}, {axis[2]} threshold {a}"))
            if case["symmetric"] and d > 1:
                if abs(0.5 * (axis[6] + axis[7]) + a) > 1e-12 * max(1.0, abs(a)):
                    out.append(Violation(f"{tag}/construct/mirror-threshold", f"axis {k}: {axis}"))

    # ------------------------------------------------------------ refinements (history)
    trunc0 = [tuple(t) for t in g.truncations]
    shared = all(a is g.axes[0] for a in g.axes)
    for step in range(1, case["refines"] + 1):
        old_axes = [np.array(a, dtype=float, copy=True) for a in g.axes]
        old_h = g.h
        old_origin = [g.origin_coordinate.value] if d == 1 else list(g.origin_coordinate.value)
        # the points the grid itself uses as cell boundaries, before refining
        old_mid = []
        for k, a in enumerate(old_axes):
            if d == 1:
                old_mid.append([g.middle(float(x), float(y)) for x, y in zip(a, a[1:])])
            else:
                old_mid.append([0.5 * (x + y) for x, y in zip(a, a[1:])])
                # n-d middle() is the coordinate-wise arithmetic mean; check on a sample tuple
        if d > 1:
            lo = tuple(float(a[0]) for a in old_axes)
            hi = tuple(float(a[1]) for a in old_axes)
            mm = g.middle(lo, hi)
            if tuple(mm) != tuple(0.5 * (x + y) for x, y in zip(lo, hi)):
                out.append(Violation(f"{tag}/refine/middle-nd", f"middle({lo},{hi})={mm}"))
        if case.get("refine_on_copy"):
            # the multilevel engine deep-copies the level-l process (grid included) and refines the copy: the original
            # grid stays the level-l grid
            import copy as _copy

            original = g
            g = _copy.deepcopy(original)
            g.refine()
            o_now = [original.origin_coordinate.value] if d == 1 else list(original.origin_coordinate.value)
            if original.h != old_h or o_now != old_origin or \
                    any(not np.array_equal(np.asarray(x, dtype=float), y) for x, y in zip(original.axes, old_axes)):
                out.append(Violation(f"{tag}/refine/refining-a-deep-copy-changed-the-original-grid",
                                     f"step {step}: h {old_h} -> {original.h}, origin {old_origin} -> {o_now}"))
                return out
        else:
            g.refine()
        if not well_formed(g, "refine", old_h / 2, [2 * o for o in old_origin], trunc0):
            return out
        for k, (old, new) in enumerate(zip(old_axes, g.axes)):
            new = np.asarray(new, dtype=float)
            if len(new) != 2 * len(old) - 1:
                out.append(Violation(f"{tag}/refine/axis-length",
                                     f"axis {k} step {step}: {len(old)} -> {len(new)} (shared={shared})"))
                return out
            if not np.array_equal(new[::2], old):
                out.append(Violation(f"{tag}/refine/old-states-not-at-doubled-indices", f"axis {k} step {step}"))
                return out
            ins = new[1::2]
            ref = np.array(old_mid[k], dtype=float)
            if not np.all((ins > old[:-1]) & (ins < old[1:])):
                out.append(Violation(f"{tag}/refine/new-state-not-inside-gap", f"axis {k} step {step}"))
                return out
            if not np.allclose(ins, ref, rtol=0, atol=2e-10 if ctor == "probstep" else 0.0):
                j = int(np.argmax(np.abs(ins - ref)))
                out.append(Violation(f"{tag}/refine/new-state-is-not-the-cell-boundary",
                                     f"axis {k} step {step}: inserted {ins[j]} but middle() was {ref[j]}"))
                return out
    return out


def classify(case):
    labels = [case["ctor"], f"d={case['d']}", f"refines={case['refines']}"] + \
             sorted({branch_of(m) for m in case["margins"]}) + (["weakly-damped-margin"] if case.get("heavy_tails") else []) + \
             (["uniform/coarse-step"] if case.get("coarse") else []) + (["model-is-an-sde-with-m!=d"] if case.get("sde_m") else [])
    nt = case["refines"] >= 1 or case["ctor"] != "uniform" or case["d"] >= 2
    return labels, nt


# ------------------------------------------------------------------------------------ the step written as an integer
@st.composite
def strat_int_step(draw, tier):
    return {"ctor": draw(st.sampled_from(["uniform", "uniform-fixed", "geometric", "geometric-bounds", "probstep", "credit"])),
            "h": draw(st.sampled_from([1, 2])), "sigma_j": draw(_f(2.0, 6.0)), "intensity": draw(_f(0.5, 8.0)),
            "mu_j": draw(st.sampled_from([0.0, 0.5])), "d": draw(st.sampled_from([1, 1, 2])),
            "k": draw(st.integers(2, 6)), "n": draw(st.integers(4, 30)), "refines": draw(st.integers(0, 2))}


def body_int_step(case):
    """a model whose jumps are of the size of several units, a spatial step of 1 or 2 written as a python integer: the grid
    is the one built with the same step written as a float"""
    from rpylib.grid import spatial as S

    spec = {"family": "merton", "exp": None,
            "params": {"sigma": 0.0, "mu_j": case["mu_j"], "sigma_j": case["sigma_j"], "intensity": case["intensity"]}}
    d, ctor = case["d"], case["ctor"]
    if ctor == "probstep":
        d = 1

    def model():
        return build_model(spec) if d == 1 else build_copula_model({"margins": [spec] * d, "copula": {"type": "independent"}})

    def make(h):
        if ctor == "uniform":
            return S.CTMCUniformGrid(h=h, model=model(), truncation_probability=0.999)
        if ctor == "uniform-fixed":
            return S.CTMCUniformGrid.create_from_fixed_nb_of_points(h=h, nb_of_points=case["n"], dimension=d)
        if ctor == "geometric":
            return S.CTMCGridGeometric(h=h, model=model(), nb_of_points_on_each_side=case["k"], truncation_probability=0.999)
        if ctor == "geometric-bounds":
            return S.CTMCGridGeometric.create_with_bounds(h=h, truncations=(-7.0 * case["sigma_j"], 9.0 * case["sigma_j"]),
                                                          dimension=d, nb_of_points_on_each_side=case["k"])
        if ctor == "probstep":
            return S.CTMCGridProbabilityStep(h=h, model=model(), minimum_probability_step=0.07)
        lv = -2.5 * case["sigma_j"]
        return S.CTMCCredit(h=h, level_a=lv if d == 1 else [lv] * d, model=model(), symmetric_grid=False)

    tag = f"C13/{ctor}/d{d}/integer-step"
    detail = f"case={case}"
    gi, gf = make(int(case["h"])), make(float(case["h"]))
    out = []
    for step in range(case["refines"] + 1):
        for k_, (ai, af) in enumerate(zip(gi.axes, gf.axes)):
            ai, af = np.asarray(ai), np.asarray(af)
            if ai.dtype.kind != "f" or ai.shape != af.shape or not np.array_equal(ai, af):
                out.append(Violation(f"{tag}/grid-differs-from-the-one-built-with-a-float-step",
                                     f"after {step} refinements, axis {k_}: dtype {ai.dtype}, {ai[:8].tolist()}... vs "
                                     f"{af[:8].tolist()}...; {detail}"))
                return out
        if float(gi.h) != float(gf.h) or gi.origin_coordinate != gf.origin_coordinate:
            out.append(Violation(f"{tag}/h-or-origin-differs", f"after {step} refinements: h {gi.h!r} / {gf.h!r}; {detail}"))
            return out
        if step < case["refines"]:
            gi.refine()
            gf.refine()
    return out


def classify_int_step(case):
    return [case["ctor"], f"d={case['d']}", f"h={case['h']}"], True


SUBCHECKS = [
    SubCheck("integer-step", body_int_step, classify_int_step,
             rule="every model-based and model-free constructor with a step of 1 or 2 written as a python integer (Merton "
                  "jumps of several units, d = 1, 2): axes, h and origin equal those of the grid built with the float step, "
                  "also after 0..2 refinements",
             strategy=strat_int_step, budget={"quick": 240, "thorough": 1200}, shards={"quick": 16, "thorough": 16}),
    SubCheck("construct-and-refine", body, classify,
             rule="constructor in {uniform, fixed-size, geometric, geometric-with-bounds, probability-step, "
                  "credit} x d in 1..3 (copula models for d>=2) x model parameters x h x 0..3(4) refinements; "
                  "invariants after construction and after every refine(); non-trivial = >=1 refinement or "
                  "non-uniform constructor or d>=2",
             strategy=strat_case, budget={"quick": 960, "thorough": 6000},
             shards={"quick": 16, "thorough": 16},
             essential_labels=("probstep", "credit", "d=3", "refines=2")),
]
