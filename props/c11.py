"""C11 - the Levy copulas are Levy copulas: grounded, d-increasing, uniform margins."""
from __future__ import annotations

import itertools
import math

import numpy as np
from hypothesis import strategies as st

from vlib.core import SubCheck, Violation
from vlib.models import _f, build_copula

PROPERTY_ID = "C11"
INF = float("inf")
ASSUMPTIONS = [
    "volumes are compared with 0 at 1e-12 of the sum of |F| over the corners (floating-point inclusion-exclusion)",
    "mixed partial derivatives by central finite differences with Richardson extrapolation (relative 1e-5)",
]


def _mag(draw, lo=-6.0, hi=6.0):
    return float(f"{10.0 ** draw(st.floats(lo, hi)):.4g}")


@st.composite
def strat_cop(draw):
    t = draw(st.sampled_from(["clayton", "clayton", "clayton", "independent", "dependent"]))
    if t == "clayton":
        # (theta is also written as a python integer: the repository's scripts use theta=10)
        theta = draw(st.sampled_from([1, 2, 3, 10])) if draw(st.integers(0, 7)) == 0 else draw(_f(0.2, 5.0))
        return {"type": t, "theta": theta, "eta": draw(st.one_of(st.sampled_from([0.0, 1.0]), _f(0.0, 1.0)))}
    return {"type": t}


@st.composite
def strat_volume(draw, tier):
    d = draw(st.sampled_from([2, 3]))
    cop = draw(strat_cop())
    a, b = [], []
    for _ in range(d):
        kind = draw(st.sampled_from(["pos", "neg", "straddle", "to-inf", "from-zero", "to-zero", "pos", "neg",
                                     "collapsed", "thin"]))
        x, y = sorted([_mag(draw), _mag(draw)])
        if x == y:
            y = 2 * x
        sgn = draw(st.sampled_from([-1.0, 1.0]))
        thin = sorted([sgn * x, sgn * x * (1.0 + draw(st.sampled_from([1e-6, 1e-9, 1e-12])))])
        lo, hi = {"pos": (x, y), "neg": (-y, -x), "straddle": (-x, y), "to-inf": (x, INF),
                  "from-zero": (0.0, y), "to-zero": (-x, 0.0),
                  # a side of zero width (a_i = b_i is a legitimate a <= b) and sides that are thin next to where they lie
                  "collapsed": (sgn * x, sgn * x), "thin": (thin[0], thin[1])}[kind]
        a.append(lo)
        b.append(hi)
    # F is finite unless *all* its arguments are infinite: at most one infinite side, so that neither the rectangle
    # nor any of its 2-margins has a corner at (inf, ..., inf)
    inf_idx = [i for i, v in enumerate(b) if math.isinf(v)]
    for i in inf_idx[1:]:
        b[i] = a[i] * 2 if a[i] > 0 else 1.0
    sub = draw(st.sampled_from([None] + [list(c) for c in itertools.combinations(range(d), 2)])) if d == 3 else None
    return {"d": d, "copula": cop, "a": a, "b": b, "sub": sub,
            "u": [draw(st.sampled_from([-1, 1])) * _mag(draw) for _ in range(d)],
            # an argument vector of integer type (tail-integral levels written as integers)
            "int_u": [draw(st.sampled_from([-1, 1])) * draw(st.integers(1, 40)) for _ in range(d)],
            "zero_at": draw(st.integers(0, d - 1))}


def body_volume(case):
    from rpylib.model.levycopulamodel import margin, volume

    out = []
    d, cspec = case["d"], case["copula"]
    F = build_copula(cspec)
    tag = f"C11/{cspec['type']}/d{d}"
    detail = f"case={case}"
    a, b = np.array(case["a"], dtype=float), np.array(case["b"], dtype=float)

    def f(u):
        return float(F(np.array(list(u), dtype=float)))

    corners = [f([a[i] if p == 0 else b[i] for i, p in enumerate(ps)]) for ps in itertools.product([0, 1], repeat=d)]
    scale = sum(abs(c) for c in corners if math.isfinite(c))
    if any(not math.isfinite(c) for c in corners):
        out.append(Violation(f"{tag}/non-finite-value", f"corner values {corners}; {detail}"))
        return out
    vol = float(volume(f, a, b))
    if vol < -1e-12 * scale - 1e-300:
        out.append(Violation(f"{tag}/negative-volume", f"volume {vol!r} (corner scale {scale!r}); {detail}"))
    # the volume operator itself: alternating sum over the corners (sign = parity of the number of lower end points)
    ref = sum((-1.0) ** (d - sum(ps)) * c for ps, c in zip(itertools.product([0, 1], repeat=d), corners))
    if abs(vol - ref) > 1e-12 * scale + 1e-300:
        out.append(Violation(f"{tag}/volume-is-not-the-alternating-sum-over-the-corners",
                             f"volume {vol!r}, alternating sum {ref!r} (corner scale {scale!r}); {detail}"))
    # the value does not depend on the type the argument vector is written in
    if case.get("int_u"):
        vi = float(F(np.array(case["int_u"], dtype=np.int64)))
        vf = f(case["int_u"])
        if not (vi == vf or abs(vi - vf) <= 1e-14 * abs(vf)):
            out.append(Violation(f"{tag}/value-depends-on-the-integer-type-of-the-arguments",
                                 f"F({case['int_u']}) = {vi!r} with integer entries, {vf!r} with float entries; {detail}"))
    # grounded
    u = np.array(case["u"], dtype=float)
    u0 = u.copy()
    u0[case["zero_at"]] = 0.0
    if f(u0) != 0.0:
        out.append(Violation(f"{tag}/not-grounded", f"F({u0.tolist()}) = {f(u0)!r}"))
    # one-dimensional margins are the identity
    for i in range(d):
        mi = margin(F, [i], d)  # the copula object itself, as LevyCopulaModel passes it (margin reuses one buffer)
        val = float(mi(np.array([u[i]])))
        if abs(val - u[i]) > 1e-12 * abs(u[i]):
            out.append(Violation(f"{tag}/margin-is-not-the-identity", f"margin {i} at {u[i]}: {val!r}; {detail}"))
            break
    # two-dimensional margins of the 3-d copulas are again 2-increasing
    if case["sub"] is not None:
        I = case["sub"]
        mI = margin(F, I, d)
        aa, bb = a[I], b[I]
        cs = [float(mI(np.array([aa[i] if p == 0 else bb[i] for i, p in enumerate(ps)]))) for ps in itertools.product([0, 1], repeat=2)]
        sc = sum(abs(c) for c in cs)
        v2 = float(volume(lambda v: float(mI(np.array(list(v), dtype=float))), aa, bb))
        if v2 < -1e-12 * sc - 1e-300:
            out.append(Violation(f"{tag}/negative-volume-of-a-2-margin", f"indices {I}: {v2!r} (scale {sc!r}); {detail}"))
    return out


def classify_volume(case):
    mixed = any(x < 0 for x in case["a"]) and any(x >= 0 for x in case["a"])
    inf = any(math.isinf(x) for x in case["b"])
    labels = [case["copula"]["type"], f"d={case['d']}"]
    if mixed:
        labels.append("mixed-orthants")
    if any(x == y for x, y in zip(case["a"], case["b"])):
        labels.append("collapsed-side")
    if inf:
        labels.append("infinite-side")
    eta_end = case["copula"].get("eta") in (0.0, 1.0)
    if eta_end:
        labels.append("eta-endpoint")
    return labels, (mixed or inf or eta_end or case["d"] == 3)


# ------------------------------------------------------------------------------------ Clayton conditional distribution
@st.composite
def strat_cond(draw, tier):
    # (strong dependence: theta up to 150 for one case in six)
    theta = draw(_f(0.2, 5.0)) if draw(st.integers(0, 5)) else draw(_f(5.0, 150.0))
    eps = draw(st.sampled_from([-1, 1])) * _mag(draw, -3, 3 if theta <= 5 else 4.5)
    if draw(st.integers(0, 5)) == 0:  # the conditioning level written as a python integer
        eps = draw(st.sampled_from([-1, 1])) * draw(st.integers(1, 30))
    return {"theta": theta, "eta": draw(st.one_of(st.sampled_from([0.0, 1.0]), _f(0.0, 1.0))),
            "eps": eps,
            # (0.0 itself is a legitimate argument: F is right-continuous there, between its one-sided limits)
            "xs": sorted({draw(st.sampled_from([-1, 1])) * _mag(draw, -5, 5) for _ in range(8)} |
                         ({0.0} if draw(st.booleans()) else set())),
            "ps": [draw(st.floats(0.01, 0.99)) for _ in range(4)]}


def body_cond(case):
    from rpylib.distribution.levycopula import ClaytonCopula

    out = []
    cop = ClaytonCopula(theta=case["theta"], eta=case["eta"])
    eps = case["eps"]
    detail = f"case={case}"
    xs = case["xs"]
    vals = [float(cop.conditional_distribution(eps, np.array([x]))[0]) for x in xs]
    if any(not (-1e-12 <= v <= 1 + 1e-12) for v in vals):
        out.append(Violation("C11/clayton/conditional-distribution/outside-[0,1]", f"{list(zip(xs, vals))}; {detail}"))
        return out
    if any(v2 < v1 - 1e-12 for v1, v2 in zip(vals, vals[1:])):
        out.append(Violation("C11/clayton/conditional-distribution/not-non-decreasing", f"{list(zip(xs, vals))}; {detail}"))
    if 0.0 in xs:
        f0 = vals[xs.index(0.0)]
        f_plus = float(cop.conditional_distribution(eps, np.array([1e-300]))[0])
        if abs(f0 - f_plus) > 1e-9:
            out.append(Violation("C11/clayton/conditional-distribution/value-at-zero-is-not-the-right-limit",
                                 f"F(0)={f0!r}, F(0+)={f_plus!r}; {detail}"))
    lo = float(cop.conditional_distribution(eps, np.array([-1e300]))[0])
    hi = float(cop.conditional_distribution(eps, np.array([1e300]))[0])
    if abs(lo) > 1e-9 or abs(hi - 1) > 1e-9:
        out.append(Violation("C11/clayton/conditional-distribution/limits", f"F(-inf)={lo!r}, F(+inf)={hi!r}; {detail}"))
    # the stated inverse inverts it, both orders (where the target is attainable: F jumps at 0 from 1-eta.. etc.)
    for x, v in zip(xs, vals):
        if 1e-9 < v < 1 - 1e-9:
            back = float(np.atleast_1d(cop.inverse_conditional_distribution(np.array(eps), np.array([v])))[0])
            if not math.isfinite(back) or abs(back - x) > 1e-6 * abs(x) or x == 0:
                # F is flat across the jump at 0: accept any point with the same F value
                if math.isfinite(back) and back != 0:
                    v2 = float(cop.conditional_distribution(eps, np.array([back]))[0])
                elif back == 0 or math.isnan(back):  # F is numerically flat next to 0: compare with the one-sided limits
                    v2 = min((float(cop.conditional_distribution(eps, np.array([z]))[0]) for z in (-1e-300, 1e-300)),
                             key=lambda w: abs(w - v))
                else:
                    v2 = float("nan")
                if not abs(v2 - v) <= 1e-9:
                    out.append(Violation("C11/clayton/inverse-of-conditional-distribution/inverse-then-direct",
                                         f"x={x} F={v} inverse={back!r} F(inverse)={v2!r}; {detail}"))
                    break
    for p in case["ps"]:
        y = float(np.atleast_1d(cop.inverse_conditional_distribution(np.array(eps), np.array([p])))[0])
        if not math.isfinite(y) or y == 0:
            # no pre-image only where p lies in the jump of F at 0 (eta in {0,1} or inside the gap)
            f_minus = float(cop.conditional_distribution(eps, np.array([-1e-300]))[0])
            f_plus = float(cop.conditional_distribution(eps, np.array([1e-300]))[0])
            if not (min(f_minus, f_plus) - 1e-9 <= p <= max(f_minus, f_plus) + 1e-9):
                out.append(Violation("C11/clayton/inverse-of-conditional-distribution/no-finite-pre-image-outside-the-jump",
                                     f"p={p} inverse={y!r}, jump of F at zero [{f_minus!r}, {f_plus!r}]; {detail}"))
                break
            continue
        v = float(cop.conditional_distribution(eps, np.array([y]))[0])
        if abs(v - p) > 1e-9:
            # the gap of F at zero: F(0-) and F(0+) differ; p inside the gap has no pre-image
            f_minus = float(cop.conditional_distribution(eps, np.array([-1e-300]))[0])
            f_plus = float(cop.conditional_distribution(eps, np.array([1e-300]))[0])
            if not (min(f_minus, f_plus) - 1e-9 <= p <= max(f_minus, f_plus) + 1e-9):
                out.append(Violation("C11/clayton/inverse-of-conditional-distribution/direct-then-inverse",
                                     f"p={p} inverse={y!r} F(inverse)={v!r}; {detail}"))
                break
    return out


def classify_cond(case):
    labels = ["eps>0" if case["eps"] > 0 else "eps<0", "theta<=5" if case["theta"] <= 5 else "theta>5"]
    if case["eta"] in (0.0, 1.0):
        labels.append("eta-endpoint")
    return labels, True


# ------------------------------------------------------------------------------------ mixed derivative
@st.composite
def strat_deriv(draw, tier):
    d = draw(st.sampled_from([2, 3]))
    return {"d": d, "theta": draw(_f(0.3, 4.0)), "eta": draw(_f(0.05, 0.95)),
            "u": [draw(st.sampled_from([-1, 1])) * _mag(draw, -2, 2) for _ in range(d)]}


def _mixed_partial(f, u, rel):
    d = len(u)
    hs = [rel * abs(x) for x in u]
    tot = 0.0
    for signs in itertools.product([-1, 1], repeat=d):
        pt = [x + s * h for x, s, h in zip(u, signs, hs)]
        tot += np.prod(signs) * f(pt)
    return tot / np.prod([2 * h for h in hs])


def body_deriv(case):
    from rpylib.distribution.levycopula import ClaytonCopula

    out = []
    cop = ClaytonCopula(theta=case["theta"], eta=case["eta"])
    u = case["u"]

    def f(v):
        return float(cop(np.array(v, dtype=float)))

    # high-precision differentiation (mpmath, 40 digits) of the Clayton formula re-typed here, after checking that the
    # re-typed function agrees with the library's copula at the point; float finite differences are not accurate
    # enough at badly scaled points
    import mpmath as mp

    theta, eta, d = case["theta"], case["eta"], case["d"]
    sg = float(np.prod(np.sign(u)))
    w = eta if sg >= 0 else -(1.0 - eta)

    def F_mp(*v):
        s_ = sum(abs(x) ** (-mp.mpf(theta)) for x in v)
        return mp.mpf(2) ** (2 - d) * s_ ** (-1 / mp.mpf(theta)) * w

    lib = f(u)
    if abs(float(F_mp(*[mp.mpf(x) for x in u])) - lib) > 1e-12 * abs(lib) + 1e-300:
        out.append(Violation("C11/clayton/value-differs-from-the-formula", f"F({u})={lib!r}; case={case}"))
        return out
    with mp.workdps(40):
        mixed = float(mp.diff(F_mp, tuple(mp.mpf(x) for x in u), tuple([1] * d)))
    expected = mixed * float(np.prod(u))
    got = float(cop.x_first_derivative(np.array(u, dtype=float)))
    if abs(got - expected) > 1e-4 * abs(expected) + 1e-12:
        alt = mixed * float(np.sign(np.prod(u)))
        is_sign = abs(got - alt) <= 1e-4 * abs(alt) + 1e-12
        which = "it equals the mixed partial times sign(prod u)" if is_sign else "neither"
        aspect = "is-mixed-partial-times-sign-instead-of-product" if is_sign else "differs-from-both-readings"
        out.append(Violation(f"C11/clayton/x_first_derivative/d{case['d']}/{aspect}",
                             f"x_first_derivative({u}) = {got!r}; mixed partial {mixed!r} times prod(u) = {expected!r} "
                             f"({which}); case={case}"))
    return out


def classify_deriv(case):
    neg = sum(1 for x in case["u"] if x < 0)
    return [f"d={case['d']}", f"negatives={neg}"], True


# ------------------------------------------------------------------------------------ one copula object, many calls
@st.composite
def strat_calls(draw, tier):
    calls = []
    for _ in range(draw(st.integers(2, 6))):
        d = draw(st.sampled_from([2, 3, 4]))
        u = [draw(st.sampled_from([-1, 1])) * _mag(draw) for _ in range(d)]
        special = draw(st.sampled_from([None, None, None, "zero", "inf"]))
        if special == "zero":
            u[draw(st.integers(0, d - 1))] = 0.0
        elif special == "inf":
            u[draw(st.integers(0, d - 1))] = INF * draw(st.sampled_from([-1, 1]))
        calls.append(u)
    # theta and eta are assignable (validated descriptors): a third of the histories re-assign them between calls
    updates = {}
    if draw(st.integers(0, 2)) == 0:
        for i in range(1, len(calls)):
            if draw(st.booleans()):
                updates[str(i)] = {"theta": draw(_f(0.2, 5.0)), "eta": draw(_f(0.0, 1.0))}
    return {"copula": draw(strat_cop()), "calls": calls, "conditional": draw(st.booleans()), "updates": updates}


def body_calls(case):
    """a copula object is a function of its argument vector only (the classes take no dimension): the value of a call
    does not depend on the calls - possibly in another dimension - made before on the same object"""
    cspec = dict(case["copula"])
    shared = build_copula(cspec)
    for i, u in enumerate(case["calls"]):
        upd = case.get("updates", {}).get(str(i))
        if upd and cspec["type"] == "clayton":
            shared.theta, shared.eta = upd["theta"], upd["eta"]
            cspec = {"type": "clayton", "theta": upd["theta"], "eta": upd["eta"]}
        arr = np.array(u, dtype=float)
        given = arr.copy()
        got = float(shared(given))
        if not np.array_equal(given, arr, equal_nan=True):
            return [Violation(f"C11/{cspec['type']}/call-modifies-its-argument",
                              f"call #{i}: argument {u} came back as {given.tolist()}; case={case}")]
        want = float(build_copula(cspec)(arr.copy()))
        if got != want and not (math.isnan(got) and math.isnan(want)):
            return [Violation(f"C11/{cspec['type']}/value-depends-on-earlier-calls",
                              f"call #{i} F({u}) = {got!r} on the shared object, {want!r} on a fresh one; case={case}")]
    return []


def classify_calls(case):
    dims = sorted({len(u) for u in case["calls"]})
    return [case["copula"]["type"], "dims=" + "".join(map(str, dims)),
            "parameters-reassigned" if case.get("updates") else "parameters-fixed"], len(dims) >= 2 or bool(case.get("updates"))


SUBCHECKS = [
    SubCheck("grounded-increasing-margins", body_volume, classify_volume,
             rule="copula (Clayton theta in [0.2,5], eta in [0,1] incl. end points; independent; completely dependent) "
                  "x d in {2,3} x rectangles with every coordinate positive / negative / straddling zero / touching "
                  "zero / infinite upper side, magnitudes over 12 decades: volume >= 0, F = 0 when an argument is 0, "
                  "1-margins = identity, 2-margins of 3-d copulas 2-increasing; non-trivial = mixed orthants, infinite "
                  "side, eta end point or d=3",
             strategy=strat_volume, budget={"quick": 9000, "thorough": 60000}),
    SubCheck("clayton-conditional-distribution", body_cond, classify_cond,
             rule="Clayton (2-d) conditional distribution: values in [0,1], non-decreasing on 8 drawn points of either "
                  "sign over 10 decades, limits 0 and 1, stated inverse inverts it in both orders (outside the jump of "
                  "F at 0)",
             strategy=strat_cond, budget={"quick": 4500, "thorough": 30000}),
    SubCheck("clayton-mixed-derivative", body_deriv, classify_deriv,
             rule="x_first_derivative(u) vs Richardson-extrapolated central mixed finite difference of F times prod(u), "
                  "d in {2,3}, all orthants",
             strategy=strat_deriv, budget={"quick": 1800, "thorough": 10000}),
    SubCheck("one-object-many-calls", body_calls, classify_calls,
             rule="one copula object evaluated on a generated sequence of 2..6 argument vectors of dimension 2, 3 or 4 "
                  "(with zero / infinite entries) against a fresh object per call: bitwise equal; non-trivial = at least "
                  "two different dimensions",
             strategy=strat_calls, budget={"quick": 6000, "thorough": 30000}, shards={"quick": 16, "thorough": 16}),
]
