"""C12 - rectangle mass of a copula model is a measure consistent with its margins."""
from __future__ import annotations

import itertools
import math

import numpy as np
from hypothesis import strategies as st

from vlib.core import SubCheck, Violation
from vlib.copula_ref import RefCopulaModel
from vlib.grids import chain_model_spec, model_scale
from vlib.models import activity, _f, branch_of, build_copula_model, build_model, copula_spec, quad_hints
from vlib.oracles import nu_integral

PROPERTY_ID = "C12"
INF = float("inf")
ASSUMPTIONS = [
    "rectangles do not contain the origin; 'split at zero' is exercised as splits at +-delta (delta down to 1e-12) "
    "because tail integrals are defined on R minus {0} and the code maps 0 to the positive side",
    "tolerances: 1e-6 relative + 2e-8 of the mass of the surrounding block (accuracy of sums of tail-integral "
    "differences); comparisons with quadrature of the marginal densities at 1e-7",
]


@st.composite
def strat_case(draw, tier):
    d = draw(st.sampled_from([2, 2, 3]))
    exp = False
    margins = [draw(chain_model_spec(exp=exp)) for _ in range(d)]
    cop = draw(copula_spec())
    sc = [model_scale(m) for m in margins]
    a, b, kinds = [], [], []
    for k in range(d):
        kind = draw(st.sampled_from(["pos", "neg", "straddle", "pos-inf", "neg-inf", "straddle-to-inf", "straddle-from-minus-inf",
                                     "tiny-pos", "tiny-neg"]))
        x = draw(_f(0.05, 3.0)) * sc[k]
        if kind.startswith("tiny"):  # rectangles hugging an axis (very small grid steps)
            x *= 10.0 ** -draw(st.integers(4, 10))
        y = x * draw(_f(1.2, 6.0))
        lo, hi = {"pos": (x, y), "neg": (-y, -x), "straddle": (-x, y), "pos-inf": (x, INF), "neg-inf": (-INF, -x),
                  "straddle-to-inf": (-x, INF), "straddle-from-minus-inf": (-INF, y), "tiny-pos": (x, y),
                  "tiny-neg": (-y, -x)}[kind]
        a.append(float(f"{lo:.6g}"))
        b.append(float(f"{hi:.6g}"))
        kinds.append(kind)
    if all(k.startswith("straddle") for k in kinds):  # must not contain the origin
        j = draw(st.integers(0, d - 1))
        a[j] = abs(a[j]) if math.isfinite(a[j]) else abs(b[j]) / 2
        b[j] = max(b[j], 2 * a[j])
        kinds[j] = "pos"
    axis = draw(st.integers(0, d - 1))
    frac = draw(st.floats(0.1, 0.9))
    near_zero = draw(st.sampled_from([None, 1e-3, 1e-6, 1e-9, 1e-12]))
    idx = draw(st.sampled_from([None] + [list(c) for r in range(1, d) for c in itertools.combinations(range(d), r)]))
    # the model is also truncated after construction (what a copula chain does to its working copy): window per margin
    trunc = draw(st.sampled_from([None, "window"]))
    if trunc is not None:
        trunc = [[-float(f"{draw(_f(0.3, 4.0)) * s:.6g}"), float(f"{draw(_f(0.3, 4.0)) * s:.6g}")] for s in sc]
    # end points written as integers (python ints): a number is a number
    int_rect = []
    for k in range(d):
        lo = draw(st.integers(1, 3)) * draw(st.sampled_from([-1, 1]))
        int_rect.append([lo, lo + draw(st.integers(1, 2))] if lo > 0 else [lo - draw(st.integers(1, 2)), lo])
    return {"d": d, "margins": margins, "copula": cop, "a": a, "b": b, "kinds": kinds, "axis": axis, "frac": frac,
            "truncate": trunc, "int_rect": int_rect,
            "near_zero": near_zero, "idx": idx, "u": [draw(_f(0.05, 4.0)) * s * draw(st.sampled_from([-1, 1])) for s in sc]}


def _contains_origin(a, b):
    return all(x < 0 < y for x, y in zip(a, b))


def body(case):
    out = []
    d = case["d"]
    model = build_copula_model({"margins": case["margins"], "copula": case["copula"]})
    ref = RefCopulaModel(case["margins"], case["copula"])
    a, b = list(case["a"]), list(case["b"])
    tag = f"C12/{case['copula']['type']}/d{d}"
    detail = f"case={case}"
    m = float(model.mass(a, b))
    # size of the surrounding block (for the absolute part of the tolerance): product-free bound = smallest marginal mass
    marg = []
    for k in range(d):
        if a[k] < 0 < b[k]:
            marg.append(INF)
        else:
            marg.append(abs(ref.U(k, a[k] if a[k] >= 0 else b[k]) - (ref.U(k, b[k]) if a[k] >= 0 and math.isfinite(b[k]) else
                                                                      (ref.U(k, a[k]) if math.isfinite(a[k]) else 0.0) if a[k] < 0 else 0.0)))
    block = min(v for v in marg if math.isfinite(v)) if any(math.isfinite(v) for v in marg) else 1.0
    block = max(block, 1e-300)
    tol = lambda v: 1e-6 * abs(v) + 2e-8 * block + 1e-14  # noqa: E731

    if not math.isfinite(m) or m < -tol(m):
        out.append(Violation(f"{tag}/negative-or-non-finite-mass", f"mass({a},{b}) = {m!r}; {detail}"))
        return out
    if case.get("int_rect"):
        ia, ib = [int(v[0]) for v in case["int_rect"]], [int(v[1]) for v in case["int_rect"]]
        m_int = float(model.mass(list(ia), list(ib)))
        m_flt = float(model.mass([float(v) for v in ia], [float(v) for v in ib]))
        if not (m_int == m_flt or abs(m_int - m_flt) <= 1e-12 * abs(m_flt)):
            out.append(Violation(f"{tag}/integer-typed-end-points-change-the-mass",
                                 f"mass({ia},{ib}) = {m_int!r} with ints, {m_flt!r} with floats; {detail}"))
    # fast path vs general formula
    g = float(model._mass_nd(list(a), list(b)))
    if abs(g - m) > tol(m):
        out.append(Violation(f"{tag}/fast-path-differs-from-general-formula/{'-'.join(case['kinds'])}",
                             f"mass={m!r} _mass_nd={g!r}; {detail}"))
    # harness reference (quadrature tail integrals + re-typed copula)
    r = ref.mass(a, b)
    if abs(r - m) > tol(m) + 1e-6 * abs(r):
        out.append(Violation(f"{tag}/differs-from-reference-mass/{'-'.join(case['kinds'])}",
                             f"mass={m!r} reference={r!r}; {detail}"))
    # additivity over a split along one axis
    k = case["axis"]
    lo, hi = a[k], b[k]
    flo = lo if math.isfinite(lo) else (min(hi, 0.0) - 5 * model_scale(case["margins"][k]))
    fhi = hi if math.isfinite(hi) else (max(lo, 0.0) + 5 * model_scale(case["margins"][k]))
    c = flo + case["frac"] * (fhi - flo)
    if lo < 0 < hi and case["near_zero"] is not None:
        c = case["near_zero"] * (1 if case["frac"] > 0.5 else -1)
    if c != 0.0 and lo < c < hi:
        a1, b1, a2, b2 = list(a), list(b), list(a), list(b)
        b1[k] = c
        a2[k] = c
        if not _contains_origin(a1, b1) and not _contains_origin(a2, b2):
            m1, m2 = float(model.mass(a1, b1)), float(model.mass(a2, b2))
            if abs(m1 + m2 - m) > tol(m) + 1e-6 * (abs(m1) + abs(m2)):
                out.append(Violation(f"{tag}/not-additive-over-a-split",
                                     f"axis {k} split at {c}: {m1!r} + {m2!r} vs {m!r}; {detail}"))
    # summing the other coordinates over the whole line gives the marginal mass (quadrature of the marginal density)
    for i in range(d):
        if a[i] < 0 < b[i]:
            continue
        aa, bb = [-INF] * d, [INF] * d
        aa[i], bb[i] = a[i], b[i]
        # whole line = negative half + positive half for each other coordinate (0 is excluded from the state space)
        others = [j for j in range(d) if j != i]
        tot = 0.0
        for signs in itertools.product([-1, 1], repeat=len(others)):
            a3, b3 = list(aa), list(bb)
            for j, sgn in zip(others, signs):
                dl = 1e-6 * model_scale(case["margins"][j])
                a3[j], b3[j] = (-INF, -dl) if sgn < 0 else (dl, INF)
            tot += float(model.mass(a3, b3))
        # plus the part where other coordinates are exactly 0 (jumps of coordinate i alone): mass of the i-margin minus
        # the above is the mass on the axis; the i-margin mass itself:
        mi = float(model.mass([a[i]], [b[i]], [i]))
        nu = build_model(case["margins"][i], force_exp=False).levy_triplet.nu
        q = nu_integral(nu, a[i], b[i], 0, quad_hints(case["margins"][i]))[0]
        if abs(mi - q) > 1e-7 * q + 1e-11:
            out.append(Violation(f"{tag}/marginal-mass-differs-from-marginal-density",
                                 f"margin {i} on [{a[i]},{b[i]}]: {mi!r} vs quadrature {q!r}; {detail}"))
        if tot > mi + tol(mi) + 1e-6 * mi:
            out.append(Violation(f"{tag}/off-axis-mass-exceeds-the-marginal-mass",
                                 f"margin {i}: sum over the orthants of the other coordinates {tot!r} > {mi!r}; {detail}"))
        break
    # sub-margin masses agree with the I-margins of the copula
    if case["idx"] is not None:
        I = case["idx"]
        aI, bI = [a[i] for i in I], [b[i] for i in I]
        if not _contains_origin(aI, bI) or len(I) == 1 and not (aI[0] < 0 < bI[0]):
            if not (len(I) == 1 and aI[0] < 0 < bI[0]) and not _contains_origin(aI, bI):
                mI = float(model.mass(aI, bI, list(I)))
                rI = ref.mass(aI, bI, list(I))
                if abs(mI - rI) > 1e-6 * abs(rI) + 2e-8 * max(abs(rI), block) + 1e-14:
                    out.append(Violation(f"{tag}/sub-margin-mass-differs-from-the-I-margin-of-the-copula",
                                         f"indices {I}: {mI!r} vs {rI!r}; {detail}"))
    # inverse marginal tail integral
    for i in range(d):
        x = case["u"][i]
        u = float(model.marginal_tail_integral(i, x))
        if 1e-8 < abs(u) < 1e8:
            back = float(model.inverse_tail_integral(i, u))
            if abs(back - x) > 1e-6 * abs(x):
                out.append(Violation(f"{tag}/inverse-tail-integral",
                                     f"margin {i}: U({x})={u!r}, inverse={back!r}; {detail}"))
                break
            u2 = float(model.marginal_tail_integral(i, back))
            if abs(u2 - u) > 1e-6 * abs(u):
                out.append(Violation(f"{tag}/tail-integral-of-inverse", f"margin {i}: {u!r} -> {back!r} -> {u2!r}; {detail}"))
                break
    # levels beyond the total mass of a half-line (finite-activity margins; a series cut-off above the intensity): the
    # generalised inverse is the end of that half-line next to the origin, where the tail integral is saturated
    for i in range(d):
        if not activity(case["margins"][i])[0]:
            continue
        nu_i = build_model(case["margins"][i], force_exp=False).levy_triplet.nu
        hints = quad_hints(case["margins"][i])
        tot = {1.0: nu_integral(nu_i, 0.0, INF, 0, hints)[0], -1.0: nu_integral(nu_i, -INF, 0.0, 0, hints)[0]}
        sc_i = model_scale(case["margins"][i])
        for sgn in (1.0, -1.0):
            if not tot[sgn] > 1e-9:
                continue
            lvl = sgn * 1.5 * tot[sgn]
            back = float(model.inverse_tail_integral(i, lvl))
            sat = float(model.marginal_tail_integral(i, back)) if back != 0 else sgn * tot[sgn]
            # (the tail integral at the returned point is below the total by the mass next to the origin, which vanishes
            # slowly for an activity index just below 0: only its order of magnitude is looked at)
            if not (abs(back) <= 1e-9 * sc_i and (back == 0 or back * sgn > 0) and 0.5 * tot[sgn] <= abs(sat) <= tot[sgn] * (1 + 1e-6)):
                out.append(Violation(f"{tag}/inverse-tail-integral/level-beyond-the-mass-of-the-half-line",
                                     f"margin {i}: level {lvl!r} (half-line mass {tot[sgn]!r}): inverse {back!r}, tail integral "
                                     f"there {sat!r}; {detail}"))
                break
    # history independence (LRU caches): a fresh model gives the same answers
    fresh = build_copula_model({"margins": case["margins"], "copula": case["copula"]})
    if float(fresh.mass(a, b)) != m:
        out.append(Violation(f"{tag}/answer-depends-on-earlier-calls", f"{fresh.mass(a, b)!r} vs {m!r}; {detail}"))
    # a model truncated after its construction is still a measure consistent with its own margins
    if case.get("truncate"):
        tm = build_copula_model({"margins": case["margins"], "copula": case["copula"]})
        tm.mass(a, b)  # caches filled before the truncation
        tm.truncate_levy_measure([tuple(t) for t in case["truncate"]])
        mt = float(tm.mass(a, b))
        gt = float(tm._mass_nd(list(a), list(b)))
        if not math.isfinite(mt) or mt < -tol(mt) or abs(gt - mt) > tol(mt):
            out.append(Violation(f"{tag}/truncated-after-construction/fast-path-differs-from-general-formula",
                                 f"window {case['truncate']}: mass={mt!r} _mass_nd={gt!r}; {detail}"))
        else:
            # whole line in the other coordinates = the model's own margin (same tail integrals)
            for i in range(d):
                if a[i] < 0 < b[i]:
                    continue
                aa, bb = [-INF] * d, [INF] * d
                aa[i], bb[i] = a[i], b[i]
                whole = float(tm.mass(aa, bb))
                own = float(tm.marginal_tail_integral(i, a[i] if a[i] > 0 else b[i])) - \
                    (float(tm.marginal_tail_integral(i, b[i] if a[i] > 0 else a[i])) if math.isfinite(b[i] if a[i] > 0 else a[i]) else 0.0)
                own = abs(own)
                if abs(whole - own) > 1e-6 * own + 2e-8 * block + 1e-14:
                    out.append(Violation(f"{tag}/truncated-after-construction/whole-line-mass-differs-from-own-margin",
                                         f"window {case['truncate']}, margin {i} on [{a[i]},{b[i]}]: {whole!r} vs "
                                         f"difference of the model's tail integrals {own!r}; {detail}"))
                break
    # the copula's parameters are assignable: after an assignment the model held so far agrees with a freshly built one
    if case["copula"]["type"] == "clayton":
        new_c = {"type": "clayton", "theta": float(f"{1.7 * case['copula']['theta'] + 0.1:.6g}"), "eta": 1.0 - case["copula"]["eta"]}
        model.copula.theta, model.copula.eta = new_c["theta"], new_c["eta"]
        m2 = float(model.mass(a, b))
        f2 = float(build_copula_model({"margins": case["margins"], "copula": new_c}).mass(a, b))
        if m2 != f2 and not (math.isnan(m2) and math.isnan(f2)):
            out.append(Violation(f"{tag}/mass-after-a-parameter-assignment-differs-from-a-fresh-model",
                                 f"theta, eta := {new_c['theta']}, {new_c['eta']}: {m2!r} vs {f2!r}; {detail}"))
    return out


def classify(case):
    labels = [case["copula"]["type"], f"d={case['d']}"] + sorted(set(case["kinds"])) + \
             sorted({branch_of(m) for m in case["margins"]})
    if case.get("truncate"):
        labels.append("truncated-after-construction")
    nt = any(k not in ("pos", "neg", "tiny-pos", "tiny-neg") for k in case["kinds"]) or case["d"] == 3 or case["idx"] is not None
    return labels, nt


# ------------------------------------------------------------------------------------ end points exactly at zero
@st.composite
def strat_zero(draw, tier):
    d = draw(st.sampled_from([2, 2, 3]))
    margins = [draw(chain_model_spec(exp=False)) for _ in range(d)]
    cop = draw(copula_spec())
    sc = [model_scale(m) for m in margins]
    axis = draw(st.integers(0, d - 1))
    side = draw(st.sampled_from(["neg0", "pos0", "split0"]))
    a, b, kinds = [], [], []
    straddle_used = False
    for k in range(d):
        x = draw(_f(0.05, 3.0)) * sc[k]
        y = x * draw(_f(1.2, 6.0))
        if k == axis:
            lo, hi = {"neg0": (-x, 0.0), "pos0": (0.0, y), "split0": (-x, y)}[side]
            kind = side
        else:
            pool = ["pos", "neg", "pos-inf", "neg-inf"]
            if d == 3 and not straddle_used:
                pool.append("straddle")
            kind = draw(st.sampled_from(pool))
            straddle_used = straddle_used or kind == "straddle"
            lo, hi = {"pos": (x, y), "neg": (-y, -x), "straddle": (-x, y), "pos-inf": (x, INF), "neg-inf": (-INF, -x)}[kind]
        a.append(float(f"{lo:.6g}"))
        b.append(float(f"{hi:.6g}"))
        kinds.append(kind)
    # the end point may be written 0.0 or -0.0 (equal floats: e.g. a mirrored or negated 0.0)
    return {"d": d, "margins": margins, "copula": cop, "a": a, "b": b, "kinds": kinds, "axis": axis, "side": side,
            "negative_zero": draw(st.sampled_from([False, False, True]))}


def body_zero(case):
    """Rectangles (not containing the origin) one of whose coordinate intervals ends exactly at zero: (a_k, 0] lies on the
    negative side, (0, b_k] on the positive side, and a straddling interval splits at zero into these two."""
    d, k = case["d"], case["axis"]
    model = build_copula_model({"margins": case["margins"], "copula": case["copula"]})
    ref = RefCopulaModel(case["margins"], case["copula"])
    a, b = list(case["a"]), list(case["b"])
    detail = f"case={case}"
    # absolute scale: the smallest marginal mass of the coordinates that stay away from zero
    marg = []
    for j in range(d):
        if j == k or a[j] < 0 < b[j]:
            continue
        lo_, hi_ = (a[j], b[j]) if a[j] > 0 else (b[j], a[j])  # nearest-to-zero end point first
        marg.append(abs(ref.U(j, lo_)) - (abs(ref.U(j, hi_)) if math.isfinite(hi_) else 0.0))
    block = max(min(marg), 1e-300)
    tol = lambda v: 1e-6 * abs(v) + 2e-8 * block + 1e-14  # noqa: E731
    NEG = "C12/zero-end-point/negative-side-interval-ending-at-zero"
    POS = "C12/zero-end-point/positive-side-interval-starting-at-zero"
    out = []

    zero = -0.0 if case.get("negative_zero") else 0.0

    def piece(lo, hi, key):
        aa, bb = list(a), list(b)
        aa[k], bb[k] = (zero if lo == 0 else lo), (zero if hi == 0 else hi)
        m = float(model.mass(list(aa), list(bb)))
        aa[k], bb[k] = lo, hi  # (the reference is given +0.0)
        if hi == 0.0:
            # (lo, 0] contains the hyperplane x_k = 0 (jumps of the other coordinates alone, which carry mass when the
            # k-th margin has finite activity): it is the straddling rectangle (lo, y] minus the positive piece (0, y]
            a2, b2, a3, b3 = list(aa), list(bb), list(aa), list(bb)
            b2[k] = -lo
            a3[k], b3[k] = 0.0, -lo
            r = ref.mass(a2, b2) - ref.mass(a3, b3)
        else:
            r = ref.mass(aa, bb)
        ab = list(aa), list(bb)
        ab[0][k], ab[1][k] = (zero if lo == 0 else lo), (zero if hi == 0 else hi)
        g = float(model._mass_nd(*ab))
        what = None
        if not math.isfinite(m) or m < -tol(m):
            what = f"negative or non-finite mass {m!r} (reference {r!r})"
        elif abs(m - r) > tol(r) + 1e-6 * abs(m):
            what = f"mass {m!r} differs from the reference {r!r}"
        elif not abs(g - m) <= tol(m):
            what = f"fast path {m!r} differs from the general formula {g!r}"
        if what is not None:
            out.append(Violation(key, f"mass({aa},{bb}): {what}; {detail}"))
        return m, what is None

    if case["side"] == "neg0":
        piece(a[k], 0.0, NEG)
    elif case["side"] == "pos0":
        piece(0.0, b[k], POS)
    else:
        m_neg, ok1 = piece(a[k], 0.0, NEG)
        m_pos, ok2 = piece(0.0, b[k], POS)
        if ok1 and ok2:
            m = float(model.mass(list(a), list(b)))
            if abs(m_neg + m_pos - m) > tol(m) + 1e-6 * (abs(m_neg) + abs(m_pos)):
                out.append(Violation("C12/zero-end-point/not-additive-over-the-split-at-zero",
                                     f"axis {k}: {m_neg!r} + {m_pos!r} vs {m!r}; {detail}"))
    return out


def classify_zero(case):
    labels = [case["side"], case["copula"]["type"], f"d={case['d']}", branch_of(case["margins"][case["axis"]]),
              "end-point=-0.0" if case.get("negative_zero") else "end-point=+0.0"]
    return labels, True


SUBCHECKS = [
    SubCheck("rectangle-mass", body, classify,
             rule="copula model (all margin families, Clayton incl. eta end points / independent / dependent, d=2,3) x "
                  "rectangles with each coordinate positive / negative / straddling / half-infinite (not containing the "
                  "origin) x split axis and point (incl. +-1e-3..1e-12 next to zero) x index subset: mass >= 0, fast "
                  "path = general formula, = harness reference, additive, marginal mass = quadrature of the marginal "
                  "density, sub-margin = I-margin, inverse tail integral round trips, fresh-model equality; "
                  "non-trivial = straddling or infinite coordinate, d=3, or proper index subset",
             strategy=strat_case, budget={"quick": 2400, "thorough": 12000}, shards={"quick": 16, "thorough": 16},
             essential_labels=("straddle", "pos-inf", "d=3")),
    SubCheck("end-points-at-zero", body_zero, classify_zero,
             rule="as above, but one coordinate interval is (a,0] (negative side), (0,b] (positive side) or a straddling "
                  "interval split at exactly zero; the other coordinates stay away from zero: mass finite and >= 0, = "
                  "harness reference with one-sided limits of the tail integrals, fast path = general formula, the two "
                  "pieces add up to the straddling rectangle",
             strategy=strat_zero, budget={"quick": 960, "thorough": 4000}, shards={"quick": 16, "thorough": 16},
             essential_labels=("neg0", "pos0", "split0")),
]
