"""C01 - CTMC jump rates are the Levy-measure masses of the grid cells (1-d and copula)."""
from __future__ import annotations

import itertools

import numpy as np
from hypothesis import strategies as st

from vlib.core import SubCheck, Violation
from vlib.copula_ref import RefCopulaModel, cells_of_axis
from vlib.grids import GridRejected, build_grid, chain_model_spec, grid_spec, model_scale, spec_h
from vlib.models import _f, branch_of, build_copula_model, build_model, copula_spec, quad_hints
from vlib.oracles import nu_integral

PROPERTY_ID = "C01"
INF = float("inf")
ASSUMPTIONS = [
    "grids are built inside the sound domain of C13 (>= 2 states per half-axis, two-sided jump laws)",
    "rates are compared with quadrature at 1e-7 relative to the cell mass + 1e-10 of the tail mass beyond "
    "the cell + 1e-11 (cancellation in the library's antiderivative differences)",
    "copula reference mass = harness re-implementation from Kallsen-Tankov over quadrature marginal tail "
    "integrals (vlib/copula_ref.py); Clayton cells additionally by dblquad of the joint density (thorough)",
]

METHODS_1D = ["ALIAS", "TABLE", "BINARYSEARCHTREE", "HUFFMANNTREE", "INVERSION", "BINARYSEARCHTREEADAPTED1D"]


@st.composite
def strat_1d(draw, tier):
    spec = draw(chain_model_spec())
    g = draw(grid_spec(max_refine=2 if tier == "quick" else 3))
    # "earlier": chains built before, with the same model object, on narrower fixed-size grids (a chain works on its own
    # truncated copy of the model: what an earlier chain did to it must not show in a later one)
    earlier = draw(st.lists(st.tuples(st.integers(4, 10), _f(0.1, 0.6)), min_size=0, max_size=2)) \
        if draw(st.booleans()) else []
    # "pretrunc": the caller's model is already restricted to an interval (public truncate_levy_measure) before the
    # chain is built on a grid constructed independently of the model: the two restrictions must intersect
    pretrunc = None
    if g["type"] in ("uniform-fixed", "geometric-bounds") and draw(st.integers(0, 2)) == 0:
        pretrunc = [draw(_f(0.6, 8.0)), draw(_f(0.6, 8.0))]
    # a quarter of the models get their parameters through the update protocol (assign every parameter, initialisation())
    spec["route"] = draw(st.sampled_from(["direct", "direct", "direct", "updated"]))
    return {"model": spec, "grid": g, "method": draw(st.sampled_from(METHODS_1D)), "earlier": [list(e) for e in earlier],
            "pretrunc": pretrunc,
            # a chain is built on the grid *before* it is refined (what every level of a coupling does): the grid object
            # that the chain under test receives has already served a coarser chain
            "chain_before_refine": draw(st.booleans())}


def _method(name):
    from rpylib.distribution.sampling import SamplingMethod

    return SamplingMethod[name]


def body_1d(case):
    from rpylib.distribution.samplingfactory import create_q_vector, create_sampling_inversion_method
    from rpylib.process.markovchain.markovchain import MarkovChainProcess

    out = []
    spec, gspec = case["model"], case["grid"]
    model = build_model(spec)
    pl, pr = -INF, INF
    if case.get("pretrunc"):
        pl, pr = -case["pretrunc"][0] * model_scale(spec), case["pretrunc"][1] * model_scale(spec)
        model.truncate_levy_measure((pl, pr))
    try:
        if case.get("chain_before_refine") and gspec.get("refine", 0) >= 1:
            grid = build_grid(gspec, model, spec, refine=False)
            for _ in range(gspec["refine"]):
                MarkovChainProcess(model=model, method=_method(case["method"]), grid=grid)
                grid.refine()
        else:
            grid = build_grid(gspec, model, spec)
    except GridRejected as e:
        return [Violation("REJECTED", str(e))]
    if len(grid.axes[0]) > 1500:
        return [Violation("REJECTED", "axis larger than the per-case bound")]
    br = branch_of(spec)
    tag = f"C01/1d/{gspec['type']}"
    from rpylib.grid.spatial import CTMCUniformGrid

    for n_pts, h_rel in case.get("earlier", []):
        g0 = CTMCUniformGrid.create_from_fixed_nb_of_points(h=spec_h(spec, {"h_rel": h_rel}), nb_of_points=n_pts, dimension=1)
        MarkovChainProcess(model=model, method=_method(case["method"]), grid=g0)
    proc = MarkovChainProcess(model=model, method=_method(case["method"]), grid=grid)
    lam = float(proc.intensity_of_jumps)
    nu_t = proc.model.levy_triplet.nu
    axis = [float(x) for x in grid.axes[0]]
    o = grid.origin_coordinate.value

    # (i) the cells the code integrates over
    captured = []
    orig = nu_t.integrate

    def spy(a, b):
        captured.append((float(a), float(b)))
        return orig(a, b)

    nu_t.integrate = spy
    try:
        q = np.array(create_q_vector(nu_t, grid), dtype=float)
    finally:
        del nu_t.integrate
    mid = grid.middle if gspec["type"] == "probstep" else None
    ref_cells = cells_of_axis(axis, o, (lambda x, y: float(grid.middle(x, y))) if mid else None)
    idx = [k for k in range(len(axis)) if k != o]
    if len(captured) != len(idx):
        out.append(Violation(f"{tag}/cells/number-of-integrated-cells",
                             f"{len(captured)} integrals for {len(idx)} non-origin states"))
        return out
    for (a, b), k in zip(captured, idx):
        ra, rb = ref_cells[k]
        if (a, b) != (ra, rb):
            out.append(Violation(f"{tag}/cells/cell-is-not-the-midpoint-cell",
                                 f"state {k} ({axis[k]}): integrated over [{a},{b}], cell is [{ra},{rb}]"))
            return out
        if not (a <= axis[k] <= b) or a >= b:
            out.append(Violation(f"{tag}/cells/state-outside-its-cell", f"state {axis[k]} cell [{a},{b}]"))
            return out
    for (c1, k1), (c2, k2) in zip(zip(captured, idx), zip(captured[1:], idx[1:])):
        if k2 == k1 + 1 and c1[1] != c2[0]:
            out.append(Violation(f"{tag}/cells/gap-or-overlap", f"cells {c1} and {c2}"))
            return out
    if captured[0][0] != axis[0] or captured[-1][1] != axis[-1]:
        out.append(Violation(f"{tag}/cells/outer-cells-do-not-reach-the-truncation-bounds",
                             f"{captured[0]} .. {captured[-1]} axis ends {axis[0]}, {axis[-1]}"))
    cl, cr = captured[idx.index(o - 1)][1], captured[idx.index(o + 1)][0]
    if (cl, cr) != (-grid.h / 2, grid.h / 2):
        out.append(Violation(f"{tag}/cells/central-cell", f"central cell [{cl},{cr}] h={grid.h}"))

    # (ii) rates vs quadrature of the untruncated density over the cell (cells lie inside the truncation)
    # (reference density from a directly constructed model, whatever route the model under test took)
    base_nu = build_model(dict(spec, route="direct"), force_exp=False).levy_triplet.nu
    hints = quad_hints(spec)
    tail_l = nu_integral(base_nu, -INF, -grid.h / 2, 0, hints)[0]
    tail_r = nu_integral(base_nu, grid.h / 2, INF, 0, hints)[0]
    total_ref = 0.0
    for k in idx:
        a, b = ref_cells[k]
        aa, bb = max(a, pl), min(b, pr)  # (the part of the cell inside the caller's own restriction)
        ref = nu_integral(base_nu, aa, bb, 0, hints)[0] if aa < bb else 0.0
        total_ref += ref
        tol = 1e-7 * ref + 1e-10 * (tail_l if b <= 0 else tail_r) + 1e-11
        if not np.isfinite(q[k]) or abs(q[k] - ref) > tol:
            out.append(Violation(f"{tag}/rate-differs-from-cell-mass/{br}",
                                 f"state {k} x={axis[k]} cell [{a},{b}]: rate {q[k]!r}, quadrature {ref!r}; "
                                 f"model={spec} grid={gspec}"))
            break
    # (iii) non-negative, sum = reported intensity
    if np.any(q < 0):
        out.append(Violation(f"{tag}/negative-rate", f"min rate {q.min()}"))
    if q[o] != 0.0:
        out.append(Violation(f"{tag}/origin-has-a-rate", f"q[origin]={q[o]}"))
    if abs(q.sum() - lam) > 1e-9 * lam:
        out.append(Violation(f"{tag}/sum-of-rates-vs-intensity/{br}",
                             f"sum of rates {q.sum()!r} reported intensity {lam!r}; model={spec} grid={gspec}"))
    if abs(total_ref - lam) > 1e-7 * lam + 1e-10 * (tail_l + tail_r):
        out.append(Violation(f"{tag}/intensity-vs-quadrature/{br}",
                             f"reported intensity {lam!r}, quadrature of the complement of the central cell "
                             f"inside the truncation {total_ref!r}"))
    # (iv) the other ways of obtaining a state's rate agree
    inv = create_sampling_inversion_method(grid, proc.model, lam, False)
    for k in idx[:: max(1, len(idx) // 40)] + [idx[0], idx[-1]]:
        p = inv.probability_to_jump_to_state(k - o)
        if abs(p * lam - q[k]) > 1e-12 * max(q[k], lam * 1e-6) + 1e-300:
            out.append(Violation(f"{tag}/inversion-closure-rate-differs",
                                 f"state {k}: closure {p * lam!r} vs q {q[k]!r}"))
            break
        m = proc.model.mass(ref_cells[k][0], ref_cells[k][1])
        if abs(m - q[k]) > 1e-12 * max(q[k], lam * 1e-6) + 1e-300:
            out.append(Violation(f"{tag}/model-mass-differs", f"state {k}: mass {m!r} vs q {q[k]!r}"))
            break
    # the caller's model object is left as it was (the chain truncates and re-represents a copy)
    fresh = build_model(dict(spec, route="direct"))
    if case.get("pretrunc"):
        fresh.truncate_levy_measure((pl, pr))
    t0, t1 = model.levy_triplet, fresh.levy_triplet
    h2 = grid.h / 2
    same = t0.representation == t1.representation and float(t0.a) == float(t1.a) and \
        float(t0.nu.integrate(-INF, -h2)) == float(t1.nu.integrate(-INF, -h2)) and \
        float(t0.nu.integrate(h2, INF)) == float(t1.nu.integrate(h2, INF))
    if not same:
        out.append(Violation(f"{tag}/building-a-chain-changed-the-callers-model",
                             f"representation {t0.representation} / {t1.representation}, a {t0.a!r} / {t1.a!r}, tail masses "
                             f"{t0.nu.integrate(-INF, -h2)!r} / {t1.nu.integrate(-INF, -h2)!r}; model={spec} grid={gspec}"))
    return out


def classify_1d(case):
    spec, g = case["model"], case["grid"]
    br = branch_of(spec)
    labels = [br, g["type"], f"refine={g['refine']}", case["method"]]
    if case.get("earlier"):
        labels.append("model-object-used-by-earlier-chains")
    if case.get("pretrunc"):
        labels.append("model-already-truncated")
    if case.get("chain_before_refine") and g["refine"] >= 1:
        labels.append("grid-served-a-coarser-chain")
    nt = g["refine"] >= 1 or g["type"] != "uniform" or br in ("cgmy/y<0", "cgmy/y=0", "cgmy/y=1")
    return labels, nt


# ---------------------------------------------------------------------------------- copula chains
COPULA_GRIDS = ["uniform-fixed", "geometric-bounds", "uniform", "credit"]


@st.composite
def strat_copula(draw, tier):
    d = draw(st.sampled_from([2, 2, 3]))
    exp = draw(st.booleans())
    # finite-variation margins for most cases (infinite variation spawns a pool in the constructor)
    heavy = draw(st.integers(0, 9)) == 0
    branches = None if heavy else ["y<0", "y=0", "0<y<1"]
    margins = [draw(chain_model_spec(exp=exp, cgmy_branches=branches)) for _ in range(d)]
    gt = draw(st.sampled_from(COPULA_GRIDS))
    g = {"type": gt, "h_rel": draw(_f(0.3, 1.5)), "dimension": d, "refine": 0}
    lim = 5 if d == 2 else 2
    if gt == "uniform-fixed":
        g["n"] = 2 * draw(st.integers(2, lim))
        g["refine"] = draw(st.integers(0, 1)) if d == 2 else 0
    elif gt == "geometric-bounds":
        g["k"] = draw(st.integers(2, lim))
        g["l_rel"], g["r_rel"] = draw(_f(4.0, 20.0)), draw(_f(4.0, 20.0))
    elif gt == "uniform":
        g["p"] = 0.999
        g["h_rel"] = draw(_f(1.2, 2.5))
    else:
        g["a_frac"] = [draw(_f(0.1, 0.9)) for _ in range(d)]
        g["symmetric"] = draw(st.booleans())
    return {"margins": margins, "copula": draw(copula_spec()), "grid": g,
            "param_update": (not heavy) and draw(st.integers(0, 3)) == 0,
            "method": draw(st.sampled_from(["INVERSION", "BINARYSEARCHTREEADAPTED"]))}


def build_copula_grid(case, model):
    from rpylib.grid import spatial as S

    g = case["grid"]
    sc = min(model_scale(m) for m in case["margins"])
    h = float(f"{g['h_rel'] * sc:.5g}")
    if g["type"] == "credit":
        l, r = S.compute_truncation(model=model, h=h)
        levels = [l + f * (-h - l) for f in g["a_frac"]]
        try:
            return S.CTMCCredit(h=h, level_a=levels, model=model, symmetric_grid=g["symmetric"])
        except ValueError as e:
            raise GridRejected(str(e))
    if g["type"] == "axes":
        # a grid the user assembles (base CTMCGrid): per-axis extents of their own, far more states on one side
        axes = []
        for nl, nr in zip(g["n_left"], g["n_right"]):
            axes.append(np.array([-h * k for k in range(nl, 0, -1)] + [0.0] + [h * k for k in range(1, nr + 1)]))
        if len(set(g["n_left"])) != 1:
            raise GridRejected("one origin index for all axes")
        return S.CTMCGrid(h=h, origin_coordinate=g["n_left"][0], axes=axes)
    if g["type"] == "uniform":
        grid = S.CTMCUniformGrid(h=h, model=model, truncation_probability=g["p"])
    elif g["type"] == "uniform-fixed":
        grid = S.CTMCUniformGrid.create_from_fixed_nb_of_points(h=h, nb_of_points=g["n"], dimension=g["dimension"])
    else:
        grid = S.CTMCGridGeometric.create_with_bounds(
            h=h, truncations=(-max(g["l_rel"] * sc, 2.5 * h), max(g["r_rel"] * sc, 2.5 * h)),
            dimension=g["dimension"], nb_of_points_on_each_side=g["k"])
    for _ in range(g.get("refine", 0)):
        grid.refine()
    return grid


def body_copula(case):
    from rpylib.distribution.samplingfactory import create_sampling_inversion_method
    from rpylib.distribution.variate.binarysearchtreeadapted import BinarySearchTreeAdapted
    from rpylib.process.markovchain.markovchainlevycopula import MarkovChainLevyCopula

    out = []
    d = len(case["margins"])
    if case.get("param_update"):
        # one model object through a parameter update: a chain is built (and its tail integrals evaluated) with other
        # marginal parameters, the parameters are then assigned their values in place and re-initialised (the library's
        # update protocol, what a calibration or a bump does), and the chain under test is built from the same object
        from rpylib.grid.spatial import CTMCUniformGrid
        from vlib.models import _START

        start = [dict(m, params=dict(_START[m["family"]])) for m in case["margins"]]
        model = build_copula_model({"margins": start, "copula": case["copula"]})
        # (the earlier chain lives on an equal grid - the same cell boundaries are asked for again later - where the grid
        # does not depend on the model, on a small fixed one otherwise)
        g0 = CTMCUniformGrid.create_from_fixed_nb_of_points(h=0.04, nb_of_points=7, dimension=d)
        if case["grid"]["type"] in ("uniform-fixed", "geometric-bounds"):
            try:
                g0 = build_copula_grid(case, build_copula_model({"margins": case["margins"], "copula": case["copula"]}))
            except GridRejected as e:
                return [Violation("REJECTED", str(e))]
        if int(np.prod([len(a) for a in g0.axes])) > (700 if d == 2 else 400):
            return [Violation("REJECTED", "outside the per-case bound")]
        MarkovChainLevyCopula(levy_copula_model=model, grid=g0, method=_method(case["method"]))
        for mm, m in zip(model.models, case["margins"]):
            params = mm.levy_model.parameters if hasattr(mm, "levy_model") else mm.parameters
            for k_, v_ in m["params"].items():
                setattr(params, k_, v_)
            params.initialisation()
    else:
        model = build_copula_model({"margins": case["margins"], "copula": case["copula"]})
    try:
        grid = build_copula_grid(case, model)
    except GridRejected as e:
        return [Violation("REJECTED", str(e))]
    npts = int(np.prod([len(a) for a in grid.axes]))
    if npts > (700 if d == 2 else 400) or any(len(a) < 5 for a in grid.axes):
        return [Violation("REJECTED", f"{npts} states: outside the per-case bound")]
    tag = f"C01/copula/d{d}/{case['copula']['type']}"
    # the state excluded from the jump targets is the origin: the grid's origin coordinate must point at 0 on every axis
    oc0 = tuple(np.atleast_1d(grid.origin_coordinate.value).tolist())
    if len(oc0) != d or any(not (0 <= oc0[k] < len(grid.axes[k])) or float(grid.axes[k][oc0[k]]) != 0.0 for k in range(d)):
        return [Violation(f"{tag}/origin-coordinate-does-not-point-at-zero",
                          f"origin coordinate {oc0}, axis lengths {[len(a) for a in grid.axes]}; grid={case['grid']}")]
    proc = MarkovChainLevyCopula(levy_copula_model=model, grid=grid, method=_method(case["method"]))
    lam = float(proc.intensity_of_jumps)
    mt = proc.model
    # "truncated Levy measure" of a copula model = restriction of the joint measure to the grid's box: cells lie
    # inside the box, so their mass is the mass under the untruncated joint measure (F applied to the
    # untruncated marginal tail integrals); truncating the margins first would define a different measure.
    ref = RefCopulaModel(case["margins"], case["copula"])
    oc = tuple(grid.origin_coordinate.value)
    axes = [[float(x) for x in a] for a in grid.axes]
    cells = [cells_of_axis(a, oc[k]) for k, a in enumerate(axes)]

    inv = create_sampling_inversion_method(grid, mt, lam, True)
    captured = []
    orig_mass = mt.mass

    def spy(a, b, indices=None):
        captured.append((tuple(map(float, a)), tuple(map(float, b))))
        return orig_mass(a, b) if indices is None else orig_mass(a, b, indices)

    states = [s for s in itertools.product(*[range(len(a)) for a in axes]) if s != oc]
    total, total_ref = 0.0, 0.0
    worst = None
    mt.mass = spy
    try:
        for s in states:
            inc = tuple(si - oi for si, oi in zip(s, oc))
            captured.clear()
            p = float(inv.probability_to_jump_to_state(inc))
            lo = tuple(cells[k][s[k]][0] for k in range(d))
            hi = tuple(cells[k][s[k]][1] for k in range(d))
            if len(captured) != 1 or captured[0] != (lo, hi):
                out.append(Violation(f"{tag}/cells/cell-is-not-the-midpoint-cell",
                                     f"state {s}: mass taken over {captured}, cell is {(lo, hi)}"))
                return out
            r_ref = ref.mass(lo, hi)
            rate = p * lam
            total += rate
            total_ref += r_ref
            tol = 1e-6 * abs(r_ref) + 2e-8 * lam
            if not np.isfinite(rate) or abs(rate - max(r_ref, 0.0)) > tol:
                if worst is None:
                    worst = Violation(f"{tag}/rate-differs-from-cell-mass",
                                      f"state {s} cell {lo}..{hi}: rate {rate!r}, reference mass {r_ref!r}, "
                                      f"intensity {lam!r}; case={case}")
            if rate < 0:
                out.append(Violation(f"{tag}/negative-rate", f"state {s}: {rate}"))
                break
            if not all(lo[k] <= axes[k][s[k]] <= hi[k] for k in range(d)):
                out.append(Violation(f"{tag}/cells/state-outside-its-cell", f"state {s}"))
                break
    finally:
        mt.mass = orig_mass
    if worst is not None:
        out.append(worst)
    # tiling per axis: shared boundaries, ends at the truncation bounds, central cell = (-h/2, h/2)
    for k in range(d):
        c = cells[k]
        if c[0][0] != axes[k][0] or c[-1][1] != axes[k][-1] or (c[oc[k]][0], c[oc[k]][1]) != (-grid.h / 2, grid.h / 2):
            out.append(Violation(f"{tag}/cells/axis-tiling", f"axis {k}: {c[0]} .. {c[oc[k]]} .. {c[-1]} h={grid.h}"))
    if abs(total - lam) > 1e-7 * lam:
        out.append(Violation(f"{tag}/sum-of-rates-vs-intensity",
                             f"sum of state rates {total!r}, reported intensity {lam!r}; case={case}"))
    if abs(total_ref - lam) > 1e-6 * lam:
        out.append(Violation(f"{tag}/intensity-vs-reference",
                             f"reported intensity {lam!r}, reference mass of the complement of the central "
                             f"cell {total_ref!r}; case={case}"))
    # adapted tree buckets: 3^d - 1 blocks, each the sum of its states' rates
    ps, cs, is_axis, cum_axes, lam2 = BinarySearchTreeAdapted._pre_computation(model=mt, grid=grid)
    if abs(lam2 - lam) > 1e-9 * lam:
        out.append(Violation(f"{tag}/adapted-tree/intensity", f"{lam2!r} vs {lam!r}"))
    if len(ps) != 3 ** d - 1:
        out.append(Violation(f"{tag}/adapted-tree/number-of-buckets", f"{len(ps)}"))
    for p_b, coords in zip(ps, cs):
        tot_b = 0.0
        for s in itertools.product(*[range(l, r + 1) for (l, r) in coords]):
            lo = tuple(cells[k][s[k]][0] for k in range(d))
            hi = tuple(cells[k][s[k]][1] for k in range(d))
            tot_b += ref.mass(lo, hi)
        if abs(p_b * lam2 - tot_b) > 1e-6 * abs(tot_b) + 2e-8 * lam:
            out.append(Violation(f"{tag}/adapted-tree/bucket-mass",
                                 f"bucket {coords}: {p_b * lam2!r} vs sum of reference cell masses {tot_b!r}"))
            break
    return out


def classify_copula(case):
    # (labels below; "param_update" marks the object-through-a-parameter-update history)
    d = len(case["margins"])
    labels = [f"d={d}", case["copula"]["type"], case["grid"]["type"], case["method"]] + \
             sorted({branch_of(m) for m in case["margins"]})
    if case["copula"]["type"] == "clayton" and case["copula"]["eta"] in (0.0, 1.0):
        labels.append("eta-endpoint")
    if case.get("param_update"):
        labels.append("model-object-through-a-parameter-update")
    return labels, True


# ---------------------------------------------------------------------------------- joint density (Clayton, d=2)
@st.composite
def strat_density(draw, tier):
    margins = [draw(chain_model_spec(exp=False, families=("hem", "merton", "vg", "cgmy"),
                                     cgmy_branches=["y<0", "y=0", "0<y<1"])) for _ in range(2)]
    cop = {"type": "clayton", "theta": draw(_f(0.3, 4.0)), "eta": draw(_f(0.05, 0.95))}
    sc = [model_scale(m) for m in margins]
    rect = []
    for k in range(2):
        sign = draw(st.sampled_from([-1, 1]))
        x1 = draw(_f(0.3, 3.0)) * sc[k]
        x2 = x1 * draw(_f(1.2, 3.0))
        rect.append([x1, x2] if sign > 0 else [-x2, -x1])
    return {"margins": margins, "copula": cop, "rect": rect}


def body_density(case):
    """mass of an off-axis rectangle (library) = dblquad of the Clayton joint density (harness)."""
    from scipy.integrate import dblquad

    out = []
    model = build_copula_model({"margins": case["margins"], "copula": case["copula"]})
    (a1, b1), (a2, b2) = case["rect"]
    lib = float(model.mass((a1, a2), (b1, b2)))
    ref = RefCopulaModel(case["margins"], case["copula"])
    theta, eta = case["copula"]["theta"], case["copula"]["eta"]

    def dens(x2, x1):
        u1, u2 = ref.U(0, x1), ref.U(1, x2)
        w = eta if u1 * u2 > 0 else (1.0 - eta)
        s = abs(u1) ** (-theta) + abs(u2) ** (-theta)
        f12 = w * (1 + theta) * (abs(u1) * abs(u2)) ** (-theta - 1) * s ** (-1.0 / theta - 2)
        return f12 * float(ref.nus[0](x1)) * float(ref.nus[1](x2))

    val, err = dblquad(dens, a1, b1, a2, b2, epsabs=1e-10, epsrel=1e-7)
    if abs(lib - val) > 1e-5 * abs(val) + 10 * err + 1e-10:
        out.append(Violation("C01/copula/d2/clayton/mass-vs-joint-density",
                             f"mass {lib!r} vs dblquad of the joint density {val!r} (+-{err:.1e}); case={case}"))
    r2 = ref.mass((a1, a2), (b1, b2))
    if abs(r2 - val) > 1e-5 * abs(val) + 10 * err + 1e-10:
        raise AssertionError(f"harness reference mass {r2} disagrees with dblquad {val}")
    return out


def classify_density(case):
    q = ["+" if r[0] > 0 else "-" for r in case["rect"]]
    return ["orthant=" + "".join(q)], True


SUBCHECKS = [
    SubCheck("rates-1d", body_1d, classify_1d,
             rule="(family, parameters, exp/plain) x grid constructor x 0..2(3) refinements x sampling method; "
                  "captured integration cells vs reference midpoint cells, rates vs quadrature, sum vs reported "
                  "intensity, three routes to a state's rate; non-trivial = refined or non-uniform grid or CGMY "
                  "special branch",
             strategy=strat_1d, budget={"quick": 390, "thorough": 1600},
             shards={"quick": 16, "thorough": 16}),
    SubCheck("rates-copula", body_copula, classify_copula,
             rule="copula (Clayton incl. eta in {0,1}, independent, dependent) x d in {2,3} x margins x small "
                  "grids (fixed-size, geometric-with-bounds, uniform, credit sym/asym) x {INVERSION, adapted "
                  "tree}: every state's rate vs harness reference rectangle mass, cells, sum vs intensity, "
                  "3^d-1 bucket masses; every case non-trivial",
             strategy=strat_copula, budget={"quick": 160, "thorough": 480},
             shards={"quick": 8, "thorough": 16}),
    SubCheck("copula-joint-density", body_density, classify_density,
             rule="Clayton d=2 with absolutely continuous margins: library mass of an off-axis rectangle in a "
                  "drawn orthant vs dblquad of the joint density d2F/du1du2(U1,U2) nu1 nu2 (also validates the "
                  "harness reference mass)",
             strategy=strat_density, budget={"quick": 96, "thorough": 600},
             shards={"quick": 4, "thorough": 16}),
]
