"""C05 - multilevel estimator = sum of per-level means over exactly the simulated samples.

Reference model: the ledger of the scripted coupling process (vlib/scripted.py).  After every pass (spy on
MLMCStatistics.set_mlmc_results) and at return the per-level arrays, N_l and every reported statistic are
recomputed with plain numpy from the ledger.
"""
from __future__ import annotations

import numpy as np
from hypothesis import strategies as st

from vlib.core import SubCheck, Violation
from vlib.mlmc_harness import mlmc_case, run_scripted_mlmc

PROPERTY_ID = "C05"
ASSUMPTIONS = [
    "the coupling process is scripted (duck-typed interface of the engine); payoffs, path managers, statistics, "
    "control variates and the engine loop are the real ones",
    "statistics use payoff component 0 (the library's MLMC results are scalar); vector payoffs are exercised "
    "by C07 for the standard engine",
    "runs are bounded by 200 passes and 30000 samples (a hit is inconclusive, never a violation)",
]


def payoff_fn(case):
    k, n, df = case["strike"], case["notional"], case["df"]
    if case["payoff"] == "forward":
        return lambda x: n * (x - k) * df
    if case["payoff"] == "call":
        return lambda x: n * max(x - k, 0.0) * df
    return lambda x: n * max(k - x, 0.0) * df


def expected_arrays(case, ledger, counts, level, offsets=None):
    lo, hi = (offsets or {}).get(level, 0), counts.get(level, 0)
    rows = ledger.samples.get(level, [])[lo:hi]
    if case["payoff"] == "barrier":
        # down-and-out call on the path (0, mid, terminal) of each component, each with its own knock-out status
        k, n, df, bar = case["strike"], case["notional"], case["df"], case["barrier"]
        mids = ledger.mids.get(level, [])[lo:hi]

        def g2(x, mid):
            return 0.0 if min(0.0, mid, x) < bar else n * max(x - k, 0.0) * df

        f = np.array([g2(a, mf) for (a, _), (mf, _) in zip(rows, mids)], dtype=float)
        c = np.array([g2(b, mc) if level > 0 else 0.0 for (_, b), (_, mc) in zip(rows, mids)], dtype=float)
        return f, c, rows
    g = payoff_fn(case)
    f = np.array([g(a) for a, _ in rows], dtype=float)
    c = np.array([g(b) if level > 0 else 0.0 for _, b in rows], dtype=float)
    return f, c, rows


def control_arrays(case, rows, level):
    """(n, nb_controls) arrays of the discounted control payoffs on the fine and coarse paths."""
    df = case["df"]
    def ctrl(i, x, k):
        return (x - k) * df if i == 0 else max(x - k, 0.0) * df

    xs_f = np.array([[ctrl(i, a, k) for i, (k, _) in enumerate(case["controls"])] for a, _ in rows], dtype=float)
    xs_c = np.array([[(ctrl(i, b, k) if level > 0 else 0.0) for i, (k, _) in enumerate(case["controls"])]
                     for _, b in rows], dtype=float)
    return xs_f.reshape(len(rows), -1), xs_c.reshape(len(rows), -1)


def textbook_adjust(y, x, prices):
    """Y - b*(X - price_X) with b* = Sigma_X^{-1} Sigma_XY; returns (adjusted, well_conditioned)."""
    if len(y) < 2 or x.shape[1] == 0:
        return y, True
    xc = x - x.mean(axis=0)
    sx = xc.T @ xc / len(y)
    sxy = xc.T @ (y - y.mean()) / len(y)
    if np.min(np.abs(sx)) < 1e-12:
        return y, True  # the library's documented near-singular guard: b* = 0
    if np.linalg.cond(sx) > 1e8:
        return y, False
    b = np.linalg.solve(sx, sxy)
    return y - (x - np.array(prices)) @ b, True


def check_record(case, rec):
    out = []
    led = rec["ledger"]
    detail = f"case={case}"
    if rec["status"] == "budget":
        return [Violation("INCONCLUSIVE", rec["error"])]
    law = case["law"]
    for pi, snap in enumerate(rec["passes"]):
        Nl = snap["Nl"]
        counts = snap["ledger_counts"]
        where = f"pass {pi} (levels {len(Nl) - 1})"
        price_ref, price_cv_ref, cv_ok = 0.0, 0.0, True
        stats = {k: [] for k in ("ml", "vl", "mean_level_l", "var_level_l", "kurtosis", "cl")}
        mags = []  # magnitude of the samples of each level (round-off of the library's non-centred moment formulas)
        for l in range(len(Nl)):
            f, c, rows = expected_arrays(case, led, counts, l, rec.get("offsets"))
            af, ac = snap["fine"][l], snap["coarse"][l]
            if len(rows) == 0:
                out.append(Violation("C05/level-without-any-sample-in-the-results",
                                     f"{where}: level {l} is part of the results with N={int(Nl[l])} but no sample was "
                                     f"ever simulated at that level; {detail}"))
                return out
            if int(Nl[l]) != len(rows):
                key = "C05/Nl-differs-from-the-number-of-simulated-samples"
                out.append(Violation(key, f"{where}: level {l} reports N={int(Nl[l])}, {len(rows)} samples were "
                                          f"simulated; {detail}"))
                return out
            if len(af) != len(rows) or not np.allclose(af, f, rtol=1e-12, atol=1e-14) \
                    or not np.allclose(ac, c, rtol=1e-12, atol=1e-14):
                if len(af) == len(rows) + 1 and af[0] == 0.0 and np.allclose(af[1:], f, rtol=1e-12, atol=1e-14):
                    key = "C05/unsimulated-zero-placeholder-row-in-the-sample-array"
                else:
                    key = "C05/sample-array-differs-from-the-simulated-samples"
                out.append(Violation(key, f"{where}: level {l}: array {af[:4]}.. (len {len(af)}) vs simulated "
                                          f"{f[:4]}.. (len {len(f)}); {detail}"))
                return out
            if l == 0 and np.any(ac != 0.0):
                out.append(Violation("C05/coarse-payoff-not-zero-at-level-0", f"{where}; {detail}"))
                return out
            dp = f - c
            price_ref += dp.mean() if len(dp) else 0.0
            sf, sc_ = f, c  # the samples the reported statistics are computed from
            if case["controls"]:
                xf, xc_ = control_arrays(case, rows, l)
                prices = [p for _, p in case["controls"]]
                adj_f, ok1 = textbook_adjust(f, xf, prices)
                adj_c, ok2 = textbook_adjust(c, xc_, prices)
                cv_ok = cv_ok and ok1 and ok2
                price_cv_ref += adj_f.mean() - adj_c.mean()
                sf, sc_ = adj_f, adj_c
                if ok1 and ok2:
                    s_ = 1.0 + np.abs(f).max()
                    if not np.allclose(snap["fine_cv"][l], adj_f, rtol=1e-7, atol=1e-7 * s_) or \
                            not np.allclose(snap["coarse_cv"][l], adj_c, rtol=1e-7, atol=1e-7 * s_):
                        out.append(Violation(f"C05/control-variate-adjusted-samples/{len(case['controls'])}-controls",
                                             f"{where}: level {l}: adjusted samples {snap['fine_cv'][l][:3]} vs "
                                             f"textbook Y - b*(X - price_X) {adj_f[:3]}; {detail}"))
                        return out
                    # the reported statistics are functions of the stored adjusted samples (just compared with the
                    # textbook ones at 1e-7): recomputing them from the harness's own adjusted samples would amplify that
                    # tolerance (4th central moment of tiny level corrections, ill-conditioned regressions on few samples)
                    sf = np.asarray(snap["fine_cv"][l], dtype=float).ravel()
                    sc_ = np.asarray(snap["coarse_cv"][l], dtype=float).ravel()
            if not cv_ok:
                stats = None
                continue
            if stats is None:
                continue
            d2 = sf - sc_
            m1 = d2.mean()
            var = max(0.0, np.mean(d2 ** 2) - m1 ** 2)
            stats["ml"].append(abs(m1))
            stats["vl"].append(var)
            stats["mean_level_l"].append(sf.mean())
            stats["var_level_l"].append(np.mean(sf ** 2) - sf.mean() ** 2)
            c4 = np.mean((d2 - m1) ** 4)
            # kurtosis = fourth central moment / variance^2 (nan = "not decided": no dispersion beyond round-off)
            big = max(float(np.abs(sf).max()), float(np.abs(sc_).max()))
            stats["kurtosis"].append(c4 / var ** 2 if var > 1e-18 * big ** 2 else float("nan"))
            mags.append(big + 1e-300)
            cost_l = law["cost0"] * 2.0 ** (law["gamma"] * l)
            stats["cl"].append(cost_l)
        scale = abs(price_ref) + abs(case["notional"]) * (abs(law["base"]) + law["s_base"])  # (relative: no absolute floor)
        for k, ref in (stats or {}).items():
            got = snap["results"][k]
            ref = np.array(ref, dtype=float)
            power = {"ml": 1, "mean_level_l": 1, "vl": 2, "var_level_l": 2, "kurtosis": 4}.get(k)
            # moments are formed from non-centred sums: cancellation error ~ 1e-16 * n * magnitude^power per level (control
            # variates with prices far from the controls' means shift the adjusted samples by hundreds)
            if k == "cl":
                tol = 1e-9 * (1 + ref)
            elif k == "kurtosis":
                # (dimensionless: the cancellation error of the fourth moment is divided by the squared variance)
                v2 = np.maximum(np.array(stats["vl"][:len(ref)], dtype=float), 1e-300) ** 2
                tol = (1e-9 * scale ** 4 + 1e-11 * np.array(mags[:len(ref)]) ** 4) / v2
            else:
                tol = 1e-9 * scale ** power + 1e-11 * np.array(mags[:len(ref)]) ** power
            if got.shape != ref.shape or not np.all((np.abs(got - ref) <= tol + 1e-9 * np.abs(ref)) | np.isnan(ref)):
                out.append(Violation(f"C05/statistic-differs-from-the-samples/{k}",
                                     f"{where}: reported {got}, recomputed from the simulated samples {ref}; {detail}"))
                return out
        off = rec.get("offsets") or {}
        total_cost = sum(law["cost0"] * 2.0 ** (law["gamma"] * l) * (counts.get(l, 0) - off.get(l, 0)) for l in range(len(Nl)))
        if abs(snap["cost"] - total_cost) > 1e-9 * (1 + total_cost):
            out.append(Violation("C05/total-cost", f"{where}: {snap['cost']} vs {total_cost}; {detail}"))
        if abs(snap["price_raw"] - price_ref) > 1e-9 * scale:
            out.append(Violation("C05/price-is-not-the-sum-of-level-means",
                                 f"{where}: price(no_control_variates)={snap['price_raw']!r}, sum of level means of "
                                 f"the simulated samples {price_ref!r}; {detail}"))
            return out
        if case["controls"] and cv_ok:
            if abs(snap["price"] - price_cv_ref) > 1e-7 * scale:
                out.append(Violation(f"C05/control-variate-price/{len(case['controls'])}-controls",
                                     f"{where}: price()={snap['price']!r}, textbook adjusted sum of level means "
                                     f"{price_cv_ref!r} (raw {price_ref!r}); {detail}"))
                return out
        elif not case["controls"] and abs(snap["price"] - price_ref) > 1e-9 * scale:
            out.append(Violation("C05/price-without-controls", f"{where}: {snap['price']} vs {price_ref}; {detail}"))
    # at return: every simulated sample is in the final arrays (nothing dropped after the last pass)
    if rec["passes"]:
        last = rec["passes"][-1]["ledger_counts"]
        final = {l: led.count(l) for l in led.samples}
        if final != last:
            out.append(Violation("C05/samples-simulated-after-the-last-results", f"{last} vs {final}; {detail}"))
    return out


def run_labels(case, rec):
    """what the run actually did (labels and the non-triviality rule are evaluated on the history)"""
    out = []
    passes = rec["passes"]
    if not passes:
        return out
    levels = [len(p["Nl"]) for p in passes]
    added = levels[-1] > levels[0]
    grew = any(int(b) >= 2 * int(a) and int(a) > 0
               for p, q in zip(passes, passes[1:]) for a, b in zip(p["Nl"], q["Nl"]))
    out.append(Violation(f"LABEL:passes={'1' if len(passes) == 1 else ('2-3' if len(passes) <= 3 else '4+')}"))
    if added:
        out.append(Violation("LABEL:level-added-late"))
    if grew:
        out.append(Violation("LABEL:sample-size-at-least-doubled"))
    if len(passes) >= 2 and (added or grew):
        out.append(Violation("NONTRIVIAL"))
    return out


def body(case):
    rec = run_scripted_mlmc(case)
    return check_record(case, rec) + run_labels(case, rec)


def classify(case):
    labels = [case["mode"], f"rates={case['rates']}", f"controls={len(case['controls'])}", case["payoff"],
              f"L0={case['initial_level']}", "engine-priced-before" if case.get("priced_before") else "first-pricing"]
    if case.get("config_reassigned"):
        labels.append("configuration-attributes-re-assigned/" + ("smaller-initial-sample" if case["config_reassigned"] > 0 else "larger-initial-sample"))
    return labels, False  # non-triviality is decided by the body from the run's history


@st.composite
def _strat(draw, tier):
    case = draw(mlmc_case(tier, path_dependent=True))
    # a quarter of the runs are the *second* pricing on one Engine object (the first one, looser or tighter, is
    # discarded): "all runs of the adaptive algorithm" includes those of an engine that has priced before
    case["priced_before"] = draw(st.sampled_from([None, None, None, 0.4, 3.0]))
    return case


def strat(tier):
    return _strat(tier)


SUBCHECKS = [
    SubCheck("ledger-vs-statistics", body, classify,
             rule="scripted coupling whose samples follow a drawn per-level law (mean/variance decay, cost growth) "
                  "x initial level 2..4 x N0 2..40 x maximum level <= 8 x rmse over 1.5 decades x rates given / "
                  "regressed / mixed x 0..2 controls x forward/call/put x adaptive or fixed-level pricing; after "
                  "every pass: arrays = ledger row for row, N_l = ledger counts, ml, vl, means, variances, "
                  "kurtosis, cl, cost, price recomputed with numpy; non-trivial = >= 2 passes and (a level added after the first pass or a sample size at least doubled)",
             strategy=strat, budget={"quick": 960, "thorough": 5000}, shards={"quick": 16, "thorough": 16},
             essential_labels=("adaptive", "fixed", "controls=2", "level-added-late")),
]
