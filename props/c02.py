"""C02 - every state sampler realises exactly the target law, independent of call history.

The map u -> state is piecewise constant.  The harness evaluates it (black box, through the
single-uniform entry points) just inside every gap between consecutive *cut points* = an equispaced
lattice united with candidate break points read from the sampler's own tables; gaps whose two ends
disagree are bisected to 1e-13.  The measured length of the preimage of each state is compared with
the target probability.  Candidates only make the measurement exact; the verdict comes from the
black-box evaluations, so a sampler whose behaviour does not match its tables is still caught by the
lattice.
"""
from __future__ import annotations

import itertools
import math

import copy

import numpy as np
from hypothesis import strategies as st

from vlib.core import SubCheck, Violation
from vlib.grids import GRID_TYPES, GridRejected, build_grid, chain_model_spec, grid_spec
from vlib.models import branch_of, build_copula_model, build_model

PROPERTY_ID = "C02"
ASSUMPTIONS = [
    "measured law tolerance: 1e-9 + 2e-13 per bisected gap; TABLE: law implied by its 256-slot table and "
    "embedded alias tables (1e-9) plus element-wise agreement of the batch call under a scripted bit source",
    "probability vectors are normalised by the harness (sum = 1 within rounding), length <= 64 (quick) / 1024",
]

EDGE_US = [0.0, 2.0 ** -53, 2.0 ** -30, 0.5, 1.0 - 2.0 ** -30, 1.0 - 2.0 ** -53]


# ----------------------------------------------------------------------------- measuring a law
def measure(f, cuts, bisect_tol=1e-13):
    """f: [0,1) -> hashable state.  cuts: iterable of candidate break points in (0,1).
    Returns (lengths: dict state -> measure, seen: set of states returned, nb_bisections)."""
    pts = sorted({0.0, 1.0} | {float(c) for c in cuts if 0.0 < c < 1.0})
    lengths = {}
    seen = set()
    nbis = 0
    for lo, hi in zip(pts[:-1], pts[1:]):
        gap = hi - lo
        if gap <= 0:
            continue
        d = min(1e-14, gap / 4)
        a, b = lo + d, hi - d
        if lo == 0.0:
            a = 0.0
        fa, fb = f(a), f(b)
        seen.add(fa)
        seen.add(fb)
        if fa == fb:
            lengths[fa] = lengths.get(fa, 0.0) + gap
            continue
        # one or more break points inside the gap: peel them off from the left
        left_edge, cur_a, cur_fa = lo, a, fa
        while cur_fa != fb:
            nbis += 1
            x, y = cur_a, b
            while y - x > bisect_tol:
                m = 0.5 * (x + y)
                fm = f(m)
                seen.add(fm)
                if fm == cur_fa:
                    x = m
                else:
                    y = m
            c = 0.5 * (x + y)
            fy = f(y)
            seen.add(fy)
            lengths[cur_fa] = lengths.get(cur_fa, 0.0) + (c - left_edge)
            left_edge, cur_a, cur_fa = c, y, fy
            if nbis > 100000:
                break
        lengths[cur_fa] = lengths.get(cur_fa, 0.0) + (hi - left_edge)
    return lengths, seen, nbis


def compare_law(tag, lengths, seen, nbis, target, out, detail, valid=None, origin=None):
    """target: dict state -> probability (only states with p > 0 need be present).

    A state that must never be returned (origin, outside the grid, probability zero) but whose preimage has
    measure <= tol is reported under a separate `measure-zero-anomaly` key (rounding slivers, single points):
    genuine by the letter of the property but of no practical weight; anything of real measure is a hard key.
    """
    tol = 1e-9 + 2e-13 * nbis
    for s in sorted(seen, key=repr):
        bad_kind = None
        if valid is not None and not valid(s):
            bad_kind = "origin" if (origin is not None and s == origin) else "outside-grid"
        elif target.get(s, 0.0) == 0.0:
            bad_kind = "zero-probability"
        if bad_kind is None:
            continue
        ln = lengths.get(s, 0.0)
        if ln > tol:
            out.append(Violation(f"{tag}/{bad_kind}-state-has-positive-measure",
                                 f"state {s!r} has preimage of length {ln!r}; {detail}"))
            return
        out.append(anomaly(tag, f"{bad_kind} state returned",
                           f"state {s!r} (preimage length {ln!r} <= {tol:.1e}) is returned for some u; {detail}"))
    for s, p in target.items():
        ln = lengths.get(s, 0.0)
        if abs(ln - p) > tol:
            out.append(Violation(f"{tag}/law-differs-from-target",
                                 f"state {s!r}: preimage length {ln!r}, target probability {p!r}; {detail}"))
            return


def _family(tag):
    t = tag.lower()
    for name, fam in (("adapted1d", "adapted-tree-1d"), ("binarysearchtreeadapted", "adapted-tree-nd"),
                      ("binarysearchtree", "bst"), ("bst", "bst"), ("huffman", "huffman"), ("alias", "alias"),
                      ("table", "table"), ("inversion", "inversion")):
        if name in t:
            return fam
    return "other"


def anomaly(tag, kind, detail):
    """One key per sampler family for all measure-zero anomalies (the kind goes in the detail)."""
    return Violation(f"C02/measure-zero-anomaly/{_family(tag)}", f"[{tag}] {kind}: {detail}")


def edge_check(tag, f, us, is_bad, out, detail):
    """constructed edge uniforms: a never-to-be-returned state at an isolated u is a measure-zero anomaly."""
    for u in us:
        try:
            s = f(u)
        except Exception as e:  # noqa: BLE001
            out.append(anomaly(tag, f"raises {type(e).__name__} at an edge uniform", f"u={u!r} raised {e!r}; {detail}"))
            continue
        if is_bad(s):
            where = "u=0" if u == 0.0 else ("u-near-1" if u > 0.99 else "u-near-0")
            out.append(anomaly(tag, f"never-to-be-returned state at {where}", f"u={u!r} -> {s!r}; {detail}"))


# ----------------------------------------------------------------------------- (a) probability vectors
@st.composite
def strat_vector(draw, tier):
    kmax = 64 if tier == "quick" else 1024
    k = draw(st.one_of(st.integers(1, 12), st.integers(1, kmax)))
    kinds = draw(st.lists(st.sampled_from(["w", "w", "w", "zero", "tie", "tiny", "dominant"]),
                          min_size=k, max_size=k))
    base = draw(st.integers(1, 1000))
    ws = []
    for kind in kinds:
        if kind == "w":
            ws.append(draw(st.integers(1, 1000)))
        elif kind == "zero":
            ws.append(0)
        elif kind == "tie":
            ws.append(base)
        elif kind == "tiny":
            ws.append(draw(st.sampled_from([1e-12, 1e-10, 3e-9])))
        else:
            ws.append(100000)
    if not any(w > 0 for w in ws):
        ws[draw(st.integers(0, k - 1))] = 1
    return {"weights": ws, "sampler": draw(st.sampled_from(["alias", "table", "bst", "huffman"])),
            "shift": draw(st.integers(0, k - 1)), "us": draw(st.lists(st.floats(0, 1, exclude_max=True), max_size=6)),
            "container": draw(st.sampled_from(["ndarray", "ndarray", "list", "tuple"]))}


def _vector_sampler(name, p, states, container="ndarray"):
    from rpylib.distribution.variate.alias import AliasMethod
    from rpylib.distribution.variate.binarysearchtree import BinarySearchTree
    from rpylib.distribution.variate.huffmantree import HuffmanTree
    from rpylib.distribution.variate.table import TableMethod

    return {"alias": AliasMethod, "table": TableMethod, "bst": BinarySearchTree, "huffman": HuffmanTree}[name](
        _in_container(p, container), states)


def _in_container(p, container):
    """the probability vector as an ndarray, a python list or a tuple (the constructors convert what they are given)"""
    if container == "list":
        return [float(v) for v in p]
    if container == "tuple":
        return tuple(float(v) for v in p)
    return p


def _alias_cuts(al):
    K = al.K
    return [x / K for x in range(K)] + [(x + float(al.q[x])) / K for x in range(K)]


def _huffman_cuts(head):
    cuts, start = [], 0.0
    stack = [(head, 0.0)]
    # preimage of a leaf = consecutive intervals in left-first depth-first order
    def walk(node, s):
        if node.is_leaf:
            cuts.append(s + node.value)
            return s + node.value
        s = walk(node.left_node, s)
        return walk(node.right_node, s)

    walk(head, 0.0)
    return cuts


def _single_u_fn(name, smp):
    from rpylib.distribution.variate import huffmantree

    if name == "alias":
        return lambda u: int(smp._draw_with_u(u))
    if name == "bst":
        return lambda u: int(smp.sample_with_u(u))
    if name == "huffman":
        return lambda u: int(huffmantree.sample_with_u(u, smp.head)[0])
    raise ValueError(name)


def body_vector(case):
    np.random.seed(20260101)  # the inversion sampler falls back on numpy.random.choice: keep runs reproducible
    import rpylib.distribution.variate.table as table_mod

    out = []
    w = np.array(case["weights"], dtype=float)
    p = w / w.sum()
    K = len(p)
    name = case["sampler"]
    tag = f"C02/vector/{name}"
    ident = (lambda k: k)
    target = {k: float(pk) for k, pk in enumerate(p) if pk > 0}
    detail = f"weights={case['weights']}"
    if name == "table":
        try:
            smp = _vector_sampler(name, p, ident, case.get("container", "ndarray"))
        except ValueError:
            if np.all(256 * p == np.floor(256 * p)):
                return [Violation("REJECTED", "table method documents that it rejects vectors with no residual")]
            raise
        J, al = smp.J, smp.alias_method
        law = {}
        for j in J:
            if j >= 0:
                law[int(j)] = law.get(int(j), 0.0) + 1.0 / 256
        n_res = sum(1 for j in J if j < 0)
        if len(J) != 256:
            out.append(Violation(f"{tag}/table-size", f"{len(J)} slots; {detail}"))
            return out
        if n_res:
            lengths, seen, nbis = measure(lambda u: int(al._draw_with_u(u)), _alias_cuts(al))
            for s, ln in lengths.items():
                law[s] = law.get(s, 0.0) + ln * n_res / 256
        compare_law(tag, law, set(law), 0, target, out, detail, valid=lambda s: 0 <= s < K)
        # batch call under a scripted bit source (Weyl sequence: low and high bits equidistributed)
        n = 512
        seq = [(i * 2654435769 + 12345) % 2 ** 32 for i in range(n)]
        it = iter(seq)

        class _R:
            @staticmethod
            def getrandbits(k):
                return next(it)

        orig = table_mod.random
        table_mod.random = _R
        try:
            got = smp.sample(size=n)
        finally:
            table_mod.random = orig
        for i, g in zip(seq, got):
            ji = J[i & 255]
            exp = int(ji) if ji >= 0 else int(al._draw_with_u(i * 2.0 ** -32))
            if int(g) != exp:
                out.append(Violation(f"{tag}/batch-differs-from-table", f"bits {i}: got {g}, table says {exp}; {detail}"))
                break
            if p[int(g)] == 0.0:
                out.append(Violation(f"{tag}/zero-probability-state-returned", f"bits {i} -> state {g}; {detail}"))
                break
        return out

    smp = _vector_sampler(name, p, ident, case.get("container", "ndarray"))
    f = _single_u_fn(name, smp)
    lattice = [(j + 0.5) / 2048 for j in range(2048)]
    if name == "alias":
        cuts = _alias_cuts(smp)
    elif name == "bst":
        cuts = [float(c) for c in smp.bst]
    else:
        cuts = _huffman_cuts(smp.head)
    lengths, seen, nbis = measure(f, lattice + cuts)
    compare_law(tag, lengths, seen, nbis, target, out, detail, valid=lambda s: 0 <= s < K)
    # every value of the uniform: constructed edge values must not return a zero-probability state
    edge_check(tag, f, EDGE_US + case["us"], lambda s: not (0 <= s < K) or p[s] == 0.0, out, detail)
    # batch entry point with the factory's shifted states, driven by the same uniforms
    shift = case["shift"]
    shifted = _vector_sampler(name, p, lambda k: -shift + np.array(k))
    us = np.array([u for u in lattice[:: 64]] + case["us"], dtype=float)
    shifted.uniform.sample = lambda size=1: us[:size].copy()
    try:
        got = shifted.sample(size=len(us))
    except Exception as e:  # noqa: BLE001
        out.append(Violation(f"{tag}/batch-raises/{type(e).__name__}",
                             f"sample({len(us)}) with states = -{shift} + k raised {e!r}; {detail}"))
        return out
    exp = [f(float(u)) - shift for u in us]
    if [int(g) for g in got] != exp:
        out.append(Violation(f"{tag}/batch-differs-from-single-uniform", f"{list(got)[:8]} vs {exp[:8]}; {detail}"))
    return out


def classify_vector(case):
    w = case["weights"]
    pos = sum(1 for x in w if x > 0)
    feats = []
    if any(x == 0 for x in w):
        feats.append("zeros")
    if len(set(w)) < len(w):
        feats.append("ties")
    if any(0 < x < 1 for x in w):
        feats.append("tiny")
    if any(x >= 100000 for x in w):
        feats.append("dominant")
    labels = [case["sampler"], "K=1" if len(w) == 1 else ("K<=12" if len(w) <= 12 else "K>12")] + feats
    return labels, (pos >= 3 and bool(feats))


# ----------------------------------------------------------------------------- (b) chains through the factory
METHODS_1D = ["ALIAS", "TABLE", "BINARYSEARCHTREE", "HUFFMANNTREE", "INVERSION", "BINARYSEARCHTREEADAPTED1D"]


def _maybe_rare(draw, spec):
    """one model in ten has an intensity scaled by 1e-9: the target law q / lambda does not depend on that scale"""
    if draw(st.integers(0, 9)) == 0:
        key = {"hem": "intensity", "merton": "intensity", "cgmy": "c"}.get(spec["family"])
        if key:
            spec["params"][key] = float(f"{spec['params'][key] * 1e-9:.6g}")
            spec["rare"] = True
    return spec


@st.composite
def strat_chain(draw, tier):
    spec = _maybe_rare(draw, draw(chain_model_spec()))
    g = draw(grid_spec(max_refine=1, types=GRID_TYPES + ["axes"]))
    return {"model": spec, "grid": g, "method": draw(st.sampled_from(METHODS_1D)),
            "chain_before_refine": draw(st.booleans()),
            "us": draw(st.lists(st.floats(0, 1, exclude_max=True), min_size=2, max_size=12))}


def _chain(case):
    from rpylib.distribution.sampling import SamplingMethod
    from rpylib.distribution.samplingfactory import create_q_vector
    from rpylib.process.markovchain.markovchain import MarkovChainProcess

    spec, gspec = case["model"], case["grid"]
    model = build_model(spec)
    if case.get("chain_before_refine") and gspec.get("refine", 0) > 0:
        # the way the levels of a coupling come about: a chain (and its sampler) on the grid, the grid refined in place,
        # a new chain on the same grid object
        grid = build_grid(gspec, model, spec, refine=False)
        for _ in range(gspec["refine"]):
            if len(grid.axes[0]) > 700:
                raise GridRejected("axis larger than the per-case bound")
            try:
                earlier = MarkovChainProcess(model=model, method=SamplingMethod[case["method"]], grid=grid)
                earlier.sampling.sample_with_u(0.37) if hasattr(earlier.sampling, "sample_with_u") else None
            except ValueError as e:
                if not (case["method"] == "TABLE" and "array of 0s" in str(e)):
                    raise  # (the table method's documented rejection of a vector without residual: no earlier chain then)
            grid.number_of_points()
            grid.refine()
    else:
        grid = build_grid(gspec, model, spec)
    if len(grid.axes[0]) > 700:
        raise GridRejected("axis larger than the per-case bound")
    proc = MarkovChainProcess(model=model, method=SamplingMethod[case["method"]], grid=grid)
    q = np.array(create_q_vector(proc.model.levy_triplet.nu, grid), dtype=float)
    return proc, grid, q


def _fresh_sampler(proc, grid, method):
    from rpylib.distribution.sampling import SamplingMethod
    from rpylib.distribution.samplingfactory import create_sampling_method

    return create_sampling_method(model=proc.model, levy_measure=proc.model.levy_triplet.nu,
                                  method=SamplingMethod[method], grid=grid, is_levy_copula=False,
                                  intensity_of_jumps=proc.intensity_of_jumps)


def _chain_fn_and_cuts(smp, method, proc, grid, q):
    """single-uniform function returning the *state increment* (int) and candidate cuts."""
    from rpylib.distribution.variate import huffmantree

    o = grid.origin_coordinate.value
    lam = proc.intensity_of_jumps
    if method == "ALIAS":
        return (lambda u: int(smp._draw_with_u(u)) - o), _alias_cuts(smp)
    if method == "BINARYSEARCHTREE":
        return (lambda u: int(smp.sample_with_u(u))), [float(c) for c in smp.bst]
    if method == "HUFFMANNTREE":
        return (lambda u: int(huffmantree.sample_with_u(u, smp.head)[0]) - o), _huffman_cuts(smp.head)
    if method == "INVERSION":
        pz = smp.state_manager.pairing
        order = sorted((k - o for k in range(len(q)) if k != o), key=lambda s: pz.pair(s))
        cuts = list(np.cumsum([q[s + o] / lam for s in order]))
        return (lambda u: int(smp.sample_with_u(u))), cuts
    if method == "BINARYSEARCHTREEADAPTED1D":
        # monotone in axis order: break points are the cumulative cell probabilities
        return (lambda u: int(smp.sample_with_u(u))), list(np.cumsum(q / lam))
    raise ValueError(method)


def body_chain(case):
    if case["grid"]["type"] == "axes" and case["grid"]["side"] != "both":
        # states on one side of the origin only: every sampling option on that grid (each has its own code path from the
        # position in the jump vector to the state increment)
        out = []
        for m in METHODS_1D:
            out += _body_chain_one({**case, "method": m})
        return out
    return _body_chain_one(case)


def _body_chain_one(case):
    np.random.seed(20260101)  # the inversion sampler falls back on numpy.random.choice: keep runs reproducible
    import rpylib.distribution.variate.table as table_mod

    out = []
    try:
        proc, grid, q = _chain(case)
    except GridRejected as e:
        return [Violation("REJECTED", str(e))]
    except ValueError as e:
        # the table method documents that it rejects vectors without residual (every probability a multiple of 1/256,
        # e.g. a symmetric law on two reachable states): decided from an independently built rate vector
        if case["method"] == "TABLE" and "array of 0s" in str(e):
            from rpylib.distribution.samplingfactory import create_q_vector

            spec = case["model"]
            model = build_model(spec)
            g2 = build_grid(case["grid"], model, spec)
            m2 = copy.deepcopy(model)
            m2.truncate_levy_measure(g2.truncations[0])
            q2 = np.array(create_q_vector(m2.levy_triplet.nu, g2), dtype=float)
            q2[g2.origin_coordinate.value] = 0.0
            p2 = q2 / q2.sum()
            if np.all(256 * p2 == np.floor(256 * p2)):
                return [Violation("REJECTED", "table method documents that it rejects vectors with no residual")]
        raise
    method = case["method"]
    gtype = case["grid"]["type"]
    o = grid.origin_coordinate.value
    lam = float(proc.intensity_of_jumps)
    n = len(q)
    tag = f"C02/chain/{method}"
    target = {k - o: float(q[k] / lam) for k in range(n) if q[k] > 0 and k != o}
    detail = f"model={case['model']} grid={case['grid']}"
    smp = proc.sampling

    def valid(s):
        return isinstance(s, int) and s != 0 and 0 <= s + o < n

    us = np.array(case["us"] + EDGE_US, dtype=float)
    if method == "TABLE":
        # law implied by the tables + scripted batch call (states are shifted increments here)
        J, al = smp.J, smp.alias_method
        law = {}
        for j in J:
            if j >= 0:
                law[int(j) - o] = law.get(int(j) - o, 0.0) + 1.0 / 256
        n_res = sum(1 for j in J if j < 0)
        if n_res:
            lengths, seen, nbis = measure(lambda u: int(al._draw_with_u(u)), _alias_cuts(al))
            for s, ln in lengths.items():
                law[s - o] = law.get(s - o, 0.0) + ln * n_res / 256
        compare_law(tag, law, set(law), 0, target, out, detail, valid=valid)
        seq = [(i * 2654435769 + 977) % 2 ** 32 for i in range(256)]
        it = iter(seq)

        class _R:
            @staticmethod
            def getrandbits(k):
                return next(it)

        orig = table_mod.random
        table_mod.random = _R
        try:
            try:
                got = smp.sample(size=len(seq))
            except Exception as e:  # noqa: BLE001
                out.append(Violation(f"{tag}/batch-raises/{type(e).__name__}", f"sample raised {e!r}; {detail}"))
                return out
        finally:
            table_mod.random = orig
        for i, g in zip(seq, got):
            ji = J[i & 255]
            exp = (int(ji) if ji >= 0 else int(al._draw_with_u(i * 2.0 ** -32))) - o
            if int(g) != exp or not valid(int(g)) or q[int(g) + o] <= 0:
                out.append(Violation(f"{tag}/batch-differs-from-table-or-inadmissible",
                                     f"bits {i}: got {g}, table says {exp}; {detail}"))
                break
        return out

    f, cuts = _chain_fn_and_cuts(smp, method, proc, grid, q)
    nl = 1024
    lattice = [(j + 0.5) / nl for j in range(nl)]
    lengths, seen, nbis = measure(f, lattice + cuts)
    key_tag = tag + ("/probstep-grid" if gtype == "probstep" and method == "BINARYSEARCHTREEADAPTED1D" else "")
    compare_law(key_tag, lengths, seen, nbis, target, out, detail, valid=valid, origin=0)
    edge_check(tag, f, EDGE_US, lambda s: not valid(s) or q[s + o] <= 0, out, detail)
    # batch entry point on a long-lived sampler == single-uniform entry of a fresh sampler (history independence)
    fresh = _fresh_sampler(proc, grid, method)
    f_fresh, _ = _chain_fn_and_cuts(fresh, method, proc, grid, q)
    hist = list(us) + list(us[::-1]) + [us[0]] * 2
    arr = np.array(hist, dtype=float)
    smp.uniform.sample = lambda size=1: arr[:size].copy()
    try:
        got = smp.sample(size=len(arr))
    except Exception as e:  # noqa: BLE001
        out.append(Violation(f"{tag}/batch-raises/{type(e).__name__}", f"sample({len(arr)}) raised {e!r}; {detail}"))
        return out
    got = [int(np.asarray(g).item()) for g in got]
    exp = []
    for u in hist:
        fr = _fresh_sampler(proc, grid, method) if method in ("INVERSION", "BINARYSEARCHTREEADAPTED1D") else fresh
        exp.append(_chain_fn_and_cuts(fr, method, proc, grid, q)[0](float(u)))
    if got != exp:
        j = next(i for i, (a, b) in enumerate(zip(got, exp)) if a != b)
        total = float(smp._cumulative_probabilities[-1]) if method == "INVERSION" else 1.0
        if method == "INVERSION" and hist[j] > total - 1e-12:
            out.append(anomaly(tag, "random state above the enumerated total mass",
                               f"u={hist[j]!r} exceeds the enumerated total {total!r}: state drawn with "
                               f"numpy.random.choice ({got[j]} vs {exp[j]}); {detail}"))
        else:
            out.append(Violation(f"{tag}/history-or-batch-dependence",
                                 f"u={hist[j]!r} (call {j}) gave {got[j]} on the long-lived sampler, {exp[j]} on a fresh one; {detail}"))
    return out


def classify_chain(case):
    g = case["grid"]
    labels = [case["method"], g["type"], branch_of(case["model"])]
    if g["type"] == "axes":
        labels.append(f"axes/{g['side']}")
    if case["model"].get("rare"):
        labels.append("intensity-scaled-by-1e-9")
    if case.get("chain_before_refine") and g.get("refine", 0) > 0:
        labels.append("chain-before-refine")
    return labels, True


# ----------------------------------------------------------------------------- (b') copula chains
@st.composite
def strat_copula_chain(draw, tier):
    from props.c01 import strat_copula

    case = draw(strat_copula(tier))
    if draw(st.integers(0, 4)) == 0:
        # a user-assembled grid with few states on the left and several more on the right of the origin (the enumeration
        # of Z^d then walks through many increments that lie beyond the left end of the grid)
        d = len(case["margins"])
        nl = draw(st.integers(1, 2))
        case["grid"] = {"type": "axes", "h_rel": case["grid"]["h_rel"], "dimension": d, "refine": 0, "n_left": [nl] * d,
                        "n_right": [nl + draw(st.integers(3, 5 if d == 2 else 3))] * d}
    # finite variation only here (constructor cost)
    case["us"] = draw(st.lists(st.floats(0, 1, exclude_max=True), min_size=2, max_size=8))
    # another chain (same margins, another copula) sampled on an equal grid earlier in the same process: samplers are
    # independent objects, whatever was computed for one must not show in the other
    case["earlier_sampler"] = draw(st.booleans())
    # the history below also runs on an inversion sampler whose memo holds a few entries only (a chain with more states
    # than the 1e6-entry memo)
    case["memo_capacity"] = draw(st.sampled_from([None, 1, 3, 10, 40]))
    return case


def _bsta_order(coords):
    """order of increasing u inside a bucket of the adapted tree: cycle over the axes, left half first."""
    coords = [tuple(c) for c in coords]
    if all(l == r for l, r in coords):
        return [tuple(l for l, _ in coords)]

    def rec(cs, k0):
        if all(l == r for l, r in cs):
            return [tuple(l for l, _ in cs)]
        d = len(cs)
        k = k0
        while cs[k % d][0] == cs[k % d][1]:
            k += 1
        k %= d
        l, r = cs[k]
        m = (l + r) // 2
        left = list(cs)
        left[k] = (l, m)
        right = list(cs)
        right[k] = (min(r, m + 1), r)
        return rec(left, (k + 1) % d) + rec(right, (k + 1) % d)

    return rec(coords, 0)


def body_copula_chain(case):
    np.random.seed(20260101)  # the inversion sampler falls back on numpy.random.choice: keep runs reproducible
    from props.c01 import build_copula_grid
    from rpylib.distribution.sampling import SamplingMethod
    from rpylib.distribution.samplingfactory import create_sampling_method
    from rpylib.process.markovchain.markovchainlevycopula import MarkovChainLevyCopula

    out = []
    d = len(case["margins"])
    model = build_copula_model({"margins": case["margins"], "copula": case["copula"]})
    if not model.jump_of_finite_variation():
        return [Violation("REJECTED", "infinite variation copula chain (constructor cost) - covered by C01")]
    try:
        grid = build_copula_grid(case, model)
    except GridRejected as e:
        return [Violation("REJECTED", str(e))]
    npts = int(np.prod([len(a) for a in grid.axes]))
    if npts > (400 if d == 2 else 250) or any(len(a) < 5 for a in grid.axes):
        return [Violation("REJECTED", f"{npts} states: outside the per-case bound")]
    method = case["method"]
    proc = MarkovChainLevyCopula(levy_copula_model=model, grid=grid, method=SamplingMethod[method])
    lam = float(proc.intensity_of_jumps)
    oc = tuple(grid.origin_coordinate.value)
    mt = proc.model
    tag = f"C02/copula-chain/{method}/d{d}"
    detail = f"case={ {k: case[k] for k in ('margins', 'copula', 'grid')} }"

    def rate(s):
        st_ = grid.origin_coordinate + tuple(si - oi for si, oi in zip(s, oc))
        v = grid[st_]
        lo = grid.middle(grid.left_point(st_), v)
        hi = grid.middle(v, grid.right_point(st_))
        return max(float(mt.mass(lo, hi)), 0.0)

    states = [s for s in itertools.product(*[range(len(a)) for a in grid.axes]) if s != oc]
    rates = {s: rate(s) for s in states}  # C01 verifies these against the reference measure
    target = {tuple(si - oi for si, oi in zip(s, oc)): r / lam for s, r in rates.items() if r > 1e-15 * lam}

    def mk():
        return create_sampling_method(model=mt, levy_measure=None, method=SamplingMethod[method], grid=grid,
                                      is_levy_copula=True, intensity_of_jumps=lam)

    smp = proc.sampling
    if method == "INVERSION":
        pz = smp.state_manager.pairing
        order = sorted(states, key=lambda s: pz.pair(tuple(si - oi for si, oi in zip(s, oc))))
        cuts = list(np.cumsum([rates[s] / lam for s in order]))

        def f_of(sampler):
            return lambda u: tuple(int(c) for c in sampler.sample_with_u(u))
    else:
        cuts = []
        start = 0.0
        for pb, coords in zip(smp._buckets_probabilities, smp._buckets_coordinates):
            acc = start
            for s in _bsta_order(coords):
                acc += rates[s] / lam
                cuts.append(acc)
            start += pb
            cuts.append(start)

        def f_of(sampler):
            high = float(sampler.uniform.high)  # the sampler draws its uniforms in [0, sum of bucket probabilities)
            return lambda u: tuple(int(c) for c in sampler.sample_with_us(np.array([u * high], dtype=float))[0])
    if case.get("earlier_sampler"):
        import copy as _copy

        # (a copula with mass off the axes, so that the other sampler bisects the same off-axis boxes)
        c0 = case["copula"]
        other = {"type": "clayton", "theta": 2 * c0["theta"] + 0.5, "eta": 0.9 if c0["eta"] < 0.5 else 0.1} \
            if c0["type"] == "clayton" else {"type": "clayton", "theta": 1.0, "eta": 0.5}
        model2 = build_copula_model({"margins": case["margins"], "copula": other})
        proc2 = MarkovChainLevyCopula(levy_copula_model=model2, grid=_copy.deepcopy(grid), method=SamplingMethod[method])
        f2 = f_of(proc2.sampling)
        for j in range(64):
            f2((j + 0.5) / 64)
    f = f_of(smp)

    def valid(s):
        return (isinstance(s, tuple) and len(s) == d and any(c != 0 for c in s)
                and all(0 <= c + o < len(a) for c, o, a in zip(s, oc, grid.axes)))

    lattice = [(j + 0.5) / 256 for j in range(256)]
    lengths, seen, nbis = measure(f, lattice + cuts)
    compare_law(tag, lengths, seen, nbis, target, out, detail, valid=valid, origin=tuple([0] * d))
    edge_check(tag, f, EDGE_US, lambda s: not valid(s) or target.get(s, 0.0) <= 0, out, detail)
    # history independence and batch entry point
    us = case["us"] + [0.999, 0.001]
    hist = us + us[::-1] + [us[0]]
    arr = np.array(hist, dtype=float)
    scale = float(getattr(smp.uniform, "high", 1.0)) if method != "INVERSION" else 1.0
    smp.uniform.sample = lambda size=1: arr[:size].copy() * scale
    try:
        got = [tuple(int(c) for c in g) for g in smp.sample(size=len(arr))]
    except Exception as e:  # noqa: BLE001
        out.append(Violation(f"{tag}/batch-raises/{type(e).__name__}", f"{e!r}; {detail}"))
        return out
    fresh_f = f_of(mk())
    exp = [f_of(mk())(float(u)) if method == "INVERSION" else fresh_f(float(u)) for u in hist]
    if method != "INVERSION":
        # the vector entry point called twice with one array of uniforms (the caller's), and with a plain list
        mine = arr.copy() * scale
        keep = mine.copy()
        fresh = mk()
        first = [tuple(int(c) for c in g) for g in fresh.sample_with_us(mine)]
        second = [tuple(int(c) for c in g) for g in fresh.sample_with_us(mine)]
        listed = [tuple(int(c) for c in g) for g in fresh.sample_with_us([float(v) for v in keep])]
        if not np.array_equal(mine, keep) or first != second or listed != first:
            out.append(Violation(f"{tag}/vector-entry-point-changes-the-callers-uniforms-or-depends-on-their-container",
                                 f"uniforms before {keep.tolist()[:4]} after {mine.tolist()[:4]}; first call {first[:4]}, "
                                 f"second call {second[:4]}, list {listed[:4]}; {detail}"))
    if got != exp:
        j = next(i for i, (a, b) in enumerate(zip(got, exp)) if a != b)
        total = float(smp._cumulative_probabilities[-1]) if method == "INVERSION" else 1.0
        if method == "INVERSION" and hist[j] > total - 1e-12:
            out.append(anomaly(tag, "random state above the enumerated total mass",
                               f"u={hist[j]!r} exceeds the enumerated total {total!r}: state drawn with "
                               f"numpy.random.choice ({got[j]} vs {exp[j]}); {detail}"))
        else:
            out.append(Violation(f"{tag}/history-or-batch-dependence",
                                 f"u={hist[j]!r} (call {j}): long-lived {got[j]} vs fresh {exp[j]}; {detail}"))
    return out


def classify_copula_chain(case):
    d = len(case["margins"])
    return [f"d={d}", case["method"], case["copula"]["type"], case["grid"]["type"],
            "after-another-sampler" if case.get("earlier_sampler") else "first-sampler"], True


# ----------------------------------------------------------------------------- (c) histories on one sampler
@st.composite
def strat_history(draw, tier):
    spec = _maybe_rare(draw, draw(chain_model_spec()))
    g = draw(grid_spec(max_refine=1, types=["uniform", "uniform-fixed", "geometric", "geometric-bounds"]))
    ops = draw(st.lists(st.one_of(
        st.tuples(st.just("draw"), st.floats(0, 1, exclude_max=True)),
        st.tuples(st.just("repeat"), st.integers(0, 30)),
        st.tuples(st.just("far"), st.sampled_from([0.9999, 0.999999, 1 - 2.0 ** -53])),
        st.tuples(st.just("batch"), st.lists(st.floats(0, 1, exclude_max=True), min_size=1, max_size=5)),
        # the public cost bookkeeping calls the engines make between runs and passes
        st.tuples(st.just("reset-cost"), st.just(0.0)),
    ), min_size=4, max_size=30))
    return {"model": spec, "grid": g, "method": draw(st.sampled_from(["INVERSION", "BINARYSEARCHTREEADAPTED1D"])),
            # the inversion sampler memoises a bounded prefix of the enumeration (1e6 entries): a small capacity on the
            # long-lived instance stands for a chain with more states than the memo holds
            "memo_capacity": draw(st.sampled_from([None, None, 2, 5, 17, 60])),
            "chain_before_refine": draw(st.booleans()),
            "ops": [[o[0], o[1]] for o in ops]}


def body_history(case):
    np.random.seed(20260101)  # the inversion sampler falls back on numpy.random.choice: keep runs reproducible
    out = []
    try:
        proc, grid, q = _chain(case)
    except GridRejected as e:
        return [Violation("REJECTED", str(e))]
    method = case["method"]
    smp = proc.sampling
    asked = []
    tag = f"C02/history/{method}"
    cap = case.get("memo_capacity")
    if cap and method == "INVERSION" and hasattr(smp, "_max_storage"):
        smp._max_storage = max(int(cap), len(smp._cumulative_probabilities))
        tag += "/bounded-memo"

    def fresh_answer(u):
        return int(_fresh_sampler(proc, grid, method).sample_with_u(u))

    for op, arg in case["ops"]:
        if op == "reset-cost":
            proc.reset_one_simulation_cost()
            if hasattr(smp, "reset_sampling_cost"):
                smp.reset_sampling_cost()
            continue
        if op in ("draw", "far"):
            us = [float(arg)]
        elif op == "repeat":
            if not asked:
                continue
            us = [asked[int(arg) % len(asked)]]
        else:
            us = [float(x) for x in arg]
        if op == "batch":
            arr = np.array(us, dtype=float)
            smp.uniform.sample = lambda size=1, _a=arr: _a[:size].copy()
            got = [int(g) for g in smp.sample(size=len(us))]
        else:
            got = [int(smp.sample_with_u(us[0]))]
        for u, g in zip(us, got):
            asked.append(u)
            e = fresh_answer(u)
            total = float(smp._cumulative_probabilities[-1]) if method == "INVERSION" else 1.0
            if "bounded-memo" in tag:  # the memo stops early: the enumerated total is within rounding of 1
                total = 1.0 - 1e-9
            if g != e and method == "INVERSION" and u > total - 1e-12:
                out.append(anomaly("chain/INVERSION", "random state above the enumerated total mass",
                                   f"u={u!r} exceeds the enumerated total {total!r}: {g} vs {e}"))
                continue
            if g != e:
                out.append(Violation(f"{tag}/answer-depends-on-history",
                                     f"after {len(asked) - 1} earlier draws u={u!r} gave {g}, a fresh sampler gives {e}; "
                                     f"model={case['model']} grid={case['grid']}"))
                return out
    return out


def classify_history(case):
    ops = [o[0] for o in case["ops"]]
    labels = [case["method"]] + sorted(set(ops))
    if case.get("memo_capacity") and case["method"] == "INVERSION":
        labels.append("bounded-memo")
    return labels, ("repeat" in ops and ("far" in ops or "batch" in ops or "reset-cost" in ops))


SUBCHECKS = [
    SubCheck("vector-samplers", body_vector, classify_vector,
             rule="probability vectors built from weights with injected zeros, exact ties, tiny (1e-12..3e-9) and "
                  "dominant entries, length 1..64 (1024 thorough) x {alias, table, bst, huffman}; preimage "
                  "lengths vs p, edge uniforms, batch call with shifted states; non-trivial = >=3 positive "
                  "entries and at least one of {zero, tie, tiny, dominant}",
             strategy=strat_vector, budget={"quick": 3600, "thorough": 12000}),
    SubCheck("chain-samplers", body_chain, classify_chain,
             rule="1-d chains (model x grid x 0..1 refinements) through create_sampling_method for each of the "
                  "six accepted options; measured law vs q/lambda, edge uniforms, batch call on the long-lived "
                  "sampler vs single-uniform call on a fresh one; grids include user-assembled axes (irregular gaps, "
                  "states on one side of the origin only: all six options on each such grid)",
             strategy=strat_chain, budget={"quick": 720, "thorough": 2400},
             shards={"quick": 16, "thorough": 16}, essential_labels=("axes/left-only", "axes/right-only")),
    SubCheck("copula-chain-samplers", body_copula_chain, classify_copula_chain,
             rule="copula chains d=2,3 (finite variation) x {INVERSION, adapted tree}: measured law vs cell "
                  "rate / intensity for every state, edge uniforms, history independence",
             strategy=strat_copula_chain, budget={"quick": 128, "thorough": 640}, essential_labels=("axes",),
             shards={"quick": 16, "thorough": 16}),
    SubCheck("histories", body_history, classify_history,
             rule="operation sequences (draw u, repeat an earlier u, draw beyond everything cached, batch) on "
                  "one long-lived INVERSION / adapted-1d sampler; every answer equals a fresh sampler's; "
                  "non-trivial = a repeat together with a far or batch draw",
             strategy=strat_history, budget={"quick": 480, "thorough": 1600},
             shards={"quick": 16, "thorough": 16}),
]
