"""C16 - the SDE scheme is the Euler scheme of its driver; rate models discount sanely.

The driver path consumed by the scheme is *captured* (wrapper storing what the driver's simulate call
returns); the Euler recursion is then recomputed in the harness step by step, and closed forms are used
for constant and diagonal coefficients.
"""
from __future__ import annotations

import copy

import numpy as np
from hypothesis import strategies as st

from vlib.core import SubCheck, Violation
from vlib.grids import chain_model_spec
from vlib.models import _f, branch_of, build_copula_model, build_model

PROPERTY_ID = "C16"
ASSUMPTIONS = [
    "driver paths are the real simulators' (numpy seeded per case) and are captured, not scripted; the recursion "
    "is recomputed with numpy on the captured path",
    "discount factors are checked on a mesh that contains every tenor and its two floating-point neighbours",
]


def _product(T=1.0):
    from rpylib.product.payoff import Forward
    from rpylib.product.product import Product
    from rpylib.product.underlying import Spot

    return Product(payoff_underlying=Spot(), payoff=Forward(strike=0.0), maturity=T)


@st.composite
def strat_sde(draw, tier):
    d = draw(st.sampled_from([1, 1, 2]))
    margins = [draw(chain_model_spec(exp=False, families=("hem", "merton", "vg", "cgmy"),
                                     cgmy_branches=["y<0", "y=0", "0<y<1"] if d > 1 else None)) for _ in range(d)]
    coef = draw(st.sampled_from(["constant", "diag", "libor", "libor-model", "forward"] if d == 1
                                else ["constant", "diag", "libor", "forward"]))
    m = d if coef == "diag" else draw(st.sampled_from([1, 2, 3]))
    case = {"d": d, "margins": margins, "coef": coef, "m": m,
            "x0": [draw(_f(0.2, 2.0)) for _ in range(m)], "const": draw(_f(-1.5, 1.5)),
            "sigma": [[draw(_f(-0.5, 0.5)) for _ in range(d)] for _ in range(m)],
            "T": draw(_f(0.2, 1.0)), "seed": draw(st.integers(0, 10 ** 6)), "levels": draw(st.integers(0, 2)),
            "h_rel": draw(_f(0.5, 1.5)), "tenor_start": draw(st.sampled_from(["beyond", "inside", "late"])),
            # the same process object simulates this many paths before the one that is checked
            "paths_before": draw(st.integers(0, 2)), "reinit": draw(st.sampled_from([False, False, True])),
            # the tenor dates are handed over as an array or as a plain list (what the constructors are annotated with)
            "tenors_as": draw(st.sampled_from(["array", "list"]))}
    if d > 1:
        case["copula"] = {"type": "clayton", "theta": draw(_f(0.5, 3.0)), "eta": draw(_f(0.1, 0.9))}
        case["levels"] = min(case["levels"], 1)
    # dX = diag(X) dY is linear in X: initial values of either sign (and zero) are in its domain, not only positive ones
    if coef == "diag" and draw(st.integers(0, 2)) == 0:
        signs = [draw(st.sampled_from([-1.0, -1.0, 1.0, 0.0])) for _ in range(m)]
        if all(s_ > 0 for s_ in signs):
            signs[0] = -1.0
        case["x0"] = [x * s_ for x, s_ in zip(case["x0"], signs)]
    # initial values written as integers (an integer-typed array)
    if coef in ("diag", "constant") and draw(st.integers(0, 5)) == 0:
        case["x0"] = [int(draw(st.integers(1, 3))) * (-1 if x < 0 else 1) for x in case["x0"]]
        case["x0_int"] = True
    return case


def _build(case):
    from rpylib.distribution.sampling import SamplingMethod
    from rpylib.grid.spatial import CTMCUniformGrid
    from rpylib.model.levydrivensde.levydrivensde import (Constant, DiagX, LevyDrivenSDEModel,
                                                           LiborSDEFunction)
    from vlib.grids import model_scale

    d, m = case["d"], case["m"]
    if d == 1:
        driver = build_model(case["margins"][0])
        method = SamplingMethod.BINARYSEARCHTREEADAPTED1D
    else:
        driver = build_copula_model({"margins": case["margins"], "copula": case["copula"]})
        method = SamplingMethod.BINARYSEARCHTREEADAPTED
    sc = min(model_scale(s) for s in case["margins"])
    h = float(f"{case['h_rel'] * sc:.5g}")
    grid = CTMCUniformGrid.create_from_fixed_nb_of_points(h=h, nb_of_points=10 if d == 1 else 6, dimension=d)
    if case["coef"] == "constant":
        a = Constant(m=m, d=d, constant=case["const"])
    elif case["coef"] == "diag":
        a = DiagX(dimension=d)
    elif case["coef"] == "libor-model":
        # the Levy Libor model: same coefficient, and an SDE drift that depends on the state (the only such model)
        from rpylib.model.levydrivensde.levylibormodel import LevyLiborModel

        model = LevyLiborModel(libor_rates=np.array(case["x0"], dtype=float) * 0.05, tenors=_tenors_arg(case),
                               sigma=np.array(case["sigma"], dtype=float), driver=driver)
        return model, grid, method, driver
    elif case["coef"] == "forward":
        from rpylib.model.levydrivensde.levydrivensde import ForwardMarketSDEFunction

        a = ForwardMarketSDEFunction(sigma=np.array(case["sigma"], dtype=float), tenors=_tenors_arg(case))
    else:
        a = LiborSDEFunction(sigma=np.array(case["sigma"], dtype=float), tenors=_tenors_arg(case))
    model = LevyDrivenSDEModel(driver=driver, x0=np.array(case["x0"], dtype=int if case.get("x0_int") else float), a=a)
    return model, grid, method, driver


def _tenors(case):
    """tenors of the Libor-type coefficient: beyond the horizon, or starting inside it (rates then fix along the path)"""
    t0 = {"beyond": 2.0, "inside": 0.4 * case["T"], "late": 0.8 * case["T"]}[case.get("tenor_start", "beyond")]
    return np.linspace(t0, t0 + 1.0, case["m"] + 1)


def _tenors_arg(case):
    t = _tenors(case)
    return [float(v) for v in t] if case.get("tenors_as") == "list" else t


def _euler(times, dW, dL, x0, a, drift_fn, mu):
    """textbook explicit Euler on the driver's own grid; returns X (m, n)."""
    m = len(x0)
    X = np.zeros((m, len(times)))
    X[:, 0] = x0
    x = np.array(x0, dtype=float).reshape(m, 1)
    for i in range(1, len(times)):
        t = times[i - 1]
        dt = times[i] - times[i - 1]
        A = np.asarray(a(t, x.copy()), dtype=float)
        A = A.reshape(m, -1)
        b = np.asarray(drift_fn(t, x.copy()), dtype=float).reshape(m, 1)
        x = x + (b + A @ mu.reshape(-1, 1)) * dt + A @ dW[:, i - 1].reshape(-1, 1) + A @ dL[:, i - 1].reshape(-1, 1)
        X[:, i] = x.ravel()
    return X


def _ref_a(case):
    """the coefficient function re-typed in the harness (not the library's objects)."""
    m, d = case["m"], case["d"]
    if case["coef"] == "constant":
        return lambda t, x: np.full((m, d), case["const"])
    if case["coef"] == "diag":
        return lambda t, x: np.diag(np.ravel(x))
    sig = np.array(case["sigma"], dtype=float)
    ten = _tenors(case)
    if case["coef"] == "forward":
        # term rate of the period [T_i, T_i+1]: full volatility before T_i, linearly decreasing over the period, none after
        def a_forward(t, x):
            g = np.minimum(1.0, np.maximum(0.0, ten[1:] - t) / (ten[1:] - ten[:-1]))
            return sig * g.reshape(m, 1) * np.ravel(x).reshape(m, 1)

        return a_forward

    def a_libor(t, x):
        s_t = sig.copy()
        s_t[ten[:-1] <= t] = 0.0  # a rate that has fixed (T_k <= t) has no volatility any more
        return s_t * np.ravel(x).reshape(m, 1)

    return a_libor


def body_sde(case):
    from rpylib.process.coupling.couplingsde import CouplingSDE
    from rpylib.process.markovchain.markovchainsde import MarkovChainSDE

    np.random.seed(case["seed"])
    out = []
    d, m, T = case["d"], case["m"], case["T"]
    model, grid, method, driver = _build(case)
    if d > 1 and not driver.jump_of_finite_variation():
        return [Violation("REJECTED", "infinite-variation copula driver (constructor cost)")]
    product = _product(T)
    detail = f"case={case}"
    a_ref = _ref_a(case)
    zero_drift = lambda t, x: np.zeros((m, 1))
    drift_holder = {"fn": zero_drift}  # the state-dependent SDE drift of the Levy Libor model is set below
    x0 = np.array(case["x0"], dtype=float) * (0.05 if case["coef"] == "libor-model" else 1.0)
    tag = f"C16/{case['coef']}/driver-d{d}"
    if case["coef"] in ("libor", "libor-model", "forward"):
        # the coefficient a(t, x) is a function of (t, x): evaluated in time order on both sides of every tenor date (a few
        # hours before and after), a rate that has fixed has no volatility from its fixing date on
        ten = _tenors(case)
        xx = x0.reshape(m, 1) * 1.3
        for t_ in sorted([float(T_k) + dt_ for T_k in ten[:-1] for dt_ in (-3e-4, -1e-6, 0.0, 1e-6, 3e-4)]):
            if t_ < 0:
                continue
            got = np.asarray(model.a(t_, xx.copy()), dtype=float).reshape(m, -1)
            want = np.asarray(a_ref(t_, xx.copy()), dtype=float).reshape(m, -1)
            if got.shape != want.shape or not np.allclose(got, want, rtol=1e-12, atol=1e-300):
                out.append(Violation(f"{tag}/coefficient-function-around-a-tenor-date",
                                     f"a({t_!r}, x) = {got.tolist()} vs {want.tolist()} (tenors {ten.tolist()}); {detail}"))
                return out

    def check_component(name, times, djump, ddiff, mu, X_lib):
        times = np.asarray(times, dtype=float)
        dW = np.diff(np.atleast_2d(ddiff), axis=1)
        dL = np.diff(np.atleast_2d(djump), axis=1)
        X = _euler(times, dW, dL, x0, a_ref, drift_holder["fn"], np.atleast_1d(np.asarray(mu, dtype=float)).ravel())
        scale = 1.0 + np.abs(X).max()
        if X_lib.shape != X.shape or not np.allclose(X_lib, X, rtol=1e-9, atol=1e-10 * scale):
            j = int(np.argmax(np.abs(X_lib - X).max(axis=0))) if X_lib.shape == X.shape else -1
            out.append(Violation(f"{tag}/{name}/not-the-euler-recursion-of-the-driver-path",
                                 f"first values {X_lib[:, :4].tolist()} vs Euler {X[:, :4].tolist()} (worst step {j} of "
                                 f"{len(times) - 1}); {detail}"))
            return
        Y_T = (np.atleast_1d(mu).ravel() * T + np.atleast_2d(ddiff)[:, -1] + np.atleast_2d(djump)[:, -1])
        if case["coef"] == "constant":
            closed = x0 + case["const"] * Y_T.sum()
            if not np.allclose(X_lib[:, -1], closed, rtol=1e-9, atol=1e-10 * scale):
                out.append(Violation(f"{tag}/{name}/constant-coefficient-closed-form",
                                     f"X_T={X_lib[:, -1]} vs x0 + a*Y_T={closed}; {detail}"))
        if case["coef"] == "diag":
            dY = np.atleast_1d(mu).ravel().reshape(-1, 1) * np.diff(times) + dW + dL
            closed = x0 * np.prod(1.0 + dY, axis=1)
            if not np.allclose(X_lib[:, -1], closed, rtol=1e-8, atol=1e-10 * scale):
                out.append(Violation(f"{tag}/{name}/diagonal-coefficient-closed-form",
                                     f"X_T={X_lib[:, -1]} vs x0*prod(1+dY)={closed}; {detail}"))

    if case["levels"] == 0:
        if case["coef"] == "libor-model":
            from rpylib.process.markovchain.markovchainsde import MarkovChainLevyLiborModel

            proc = MarkovChainLevyLiborModel(model=model, method=method, grid=grid)
        else:
            proc = MarkovChainSDE(model=model, method=method, grid=grid)
        proc.initialisation(product)
        proc.pre_computation(1, product)
        if case["coef"] == "libor-model":
            # the drift *formula* is the library's; what is checked is that the scheme evaluates it at (t_i, X_i) of the
            # component it advances
            # (the class's function, called on the instance: an attribute of the same name set on the instance would hide it)
            drift_holder["fn"] = lambda t, x, _p=proc: np.asarray(
                MarkovChainLevyLiborModel.sde_drift(_p, t, np.asarray(x, dtype=float).reshape(m, 1)), dtype=float)
        beta = driver.blumenthal_getoor_index()
        if not np.isclose(proc.epsilon, grid.h ** beta, rtol=1e-12):
            out.append(Violation(f"{tag}/epsilon-is-not-h-power-beta", f"{proc.epsilon} vs {grid.h ** beta}; {detail}"))
        captured = {}
        orig = proc.markov_chain.simulate_one_path

        def spy():
            p = orig()
            captured["p"] = copy.deepcopy(p)
            return p

        for _ in range(case.get("paths_before", 0)):
            proc.simulate_one_path()
        proc.markov_chain.simulate_one_path = spy
        path = proc.simulate_one_path()
        dp = captured["p"]
        X_lib = x0.reshape(m, 1) + np.asarray(path.value(), dtype=float).reshape(m, -1)
        if not np.array_equal(np.asarray(path.jump_times), np.asarray(dp.jump_times)):
            out.append(Violation(f"{tag}/single/not-on-the-driver-time-grid", detail))
            return out
        # components reported separately must add up to the value
        tot = np.asarray(path.drift) + np.asarray(path.diffusion_path) + np.asarray(path.jump_path)
        if not np.allclose(tot, path.value(), rtol=1e-12, atol=1e-14):
            out.append(Violation(f"{tag}/single/components-do-not-add-up", detail))
        check_component("single", dp.jump_times, dp.jump_path, dp.diffusion_path, proc.markov_chain.process_drift(), X_lib)
        out.append(Violation(f"LABEL:steps={'<3' if len(dp.jump_times) < 4 else '>=3'}"))
        if len(dp.jump_times) >= 4 and np.any(np.diff(np.atleast_2d(dp.jump_path), axis=1) != 0):
            out.append(Violation("NONTRIVIAL"))
        return out

    cs = CouplingSDE(model=model, grid=grid, method=method)
    cs.initialisation(product)
    cs.pre_computation(1, product)

    class _PM:
        def __init__(self, f):
            self.deterministic_path = f

        def update(self, r):
            pass

    pms = [_PM(cs.fine_process.deterministic_path)]
    for _ in range(case["levels"]):
        cs.next_level(1, pms, product)
    if case.get("reinit"):
        # the levelled object is initialised again (a second pricing on the same refined coupling): nothing it carries from
        # the level below may be overwritten by that
        cs.initialisation(product)
        cs.pre_computation(1, product)
    if case["coef"] == "libor-model":
        from rpylib.process.markovchain.markovchainsde import MarkovChainLevyLiborModel

        drift_holder["fn"] = lambda t, x, _p=cs.fine_process: np.asarray(
            MarkovChainLevyLiborModel.sde_drift(_p, t, np.asarray(x, dtype=float).reshape(m, 1)), dtype=float)
    captured = {}
    drv = cs.driver_coupling_process
    orig = drv.simulate_one_path_with_coupling

    def spy():
        p = orig()
        captured["p"] = copy.deepcopy(p)
        return p

    for _ in range(case.get("paths_before", 0)):
        cs.simulate_one_path_with_coupling()
    drv.simulate_one_path_with_coupling = spy
    path = cs.simulate_one_path_with_coupling()
    dp = captured["p"]
    val = np.asarray(path.value(), dtype=float)
    # reference chains built independently of the coupling: same construction, grid refined level (fine) and level-1
    # (coarse) times, fresh chain on it
    from rpylib.process.markovchain.markovchain import MarkovChainProcess
    from rpylib.process.markovchain.markovchainlevycopula import MarkovChainLevyCopula

    def ref_chain(k):
        _, g, mth, drv = _build(case)
        for _ in range(k):
            g.refine()
        pr = MarkovChainProcess(model=drv, method=mth, grid=g) if d == 1 else \
            MarkovChainLevyCopula(levy_copula_model=drv, grid=g, method=mth)
        pr.initialisation(product)
        return pr

    refs = {"fine": ref_chain(case["levels"]), "coarse": ref_chain(case["levels"] - 1)}
    mus = {}
    for name, got in (("fine", cs.mc_drift_h), ("coarse", cs.mc_drift_2h)):
        mus[name] = np.asarray(refs[name].process_drift(), dtype=float)
        if not np.allclose(np.asarray(got, dtype=float).ravel(), mus[name].ravel(), rtol=1e-10, atol=1e-13):
            out.append(Violation(f"{tag}/{name}/driver-drift-is-not-that-of-a-fresh-chain-on-the-level-grid",
                                 f"level {case['levels']}: coupling uses {np.ravel(got)}, fresh chain {mus[name].ravel()}; {detail}"))
    if d == 1:
        sf, sc_ = (float(refs[n].equivalent_diffusion_coefficient) for n in ("fine", "coarse"))
        dWs = np.diff(np.asarray(dp.diffusion_path, dtype=float), axis=1)
        if not np.allclose(dWs[0] * sc_, dWs[1] * sf, rtol=1e-10, atol=1e-14 * (abs(sf) + abs(sc_))):
            out.append(Violation(f"{tag}/coupled/diffusion-increments-are-not-sigma_fine-and-sigma_coarse-times-one-brownian-path",
                                 f"level {case['levels']}: fine/coarse increments {dWs[:, :3].tolist()}, fresh chains' "
                                 f"coefficients {sf!r} / {sc_!r}; {detail}"))
    if out:
        return out
    for row, name, mu in ((0, "fine", mus["fine"]), (1, "coarse", mus["coarse"])):
        X_lib = x0.reshape(m, 1) + val[row].reshape(m, -1)
        check_component(name, dp.jump_times, np.asarray(dp.jump_path)[row], np.asarray(dp.diffusion_path)[row], mu, X_lib)
    out.append(Violation(f"LABEL:coupled-steps={'<3' if len(dp.jump_times) < 4 else '>=3'}"))
    if len(dp.jump_times) >= 4:
        out.append(Violation("NONTRIVIAL"))
    return out


def classify_sde(case):
    return [case["coef"], f"driver-d={case['d']}", f"m={case['m']}", f"levels={case['levels']}",
            f"paths-before={case.get('paths_before', 0)}"] + ([f"tenors-{case.get('tenor_start')}", f"tenors-as-{case.get('tenors_as', 'array')}"] if case["coef"] in ("libor", "forward", "libor-model") else []) + \
        (["diag/non-positive-initial-value"] if case["coef"] == "diag" and min(case["x0"]) <= 0 else []) + \
        (["integer-typed-initial-value"] if case.get("x0_int") else []) + \
        (["re-initialised-after-refinement"] if case.get("reinit") and case["levels"] >= 1 else []) + \
        sorted({branch_of(s) for s in case["margins"]}), False


# ------------------------------------------------------------------------------------ discount factors
@st.composite
def strat_df(draw, tier):
    m = draw(st.integers(1, 6))
    first = draw(_f(0.1, 2.0))
    gaps = [draw(_f(0.1, 2.0)) for _ in range(m)]
    tenors = [float(f"{v:.6g}") for v in np.concatenate(([first], first + np.cumsum(gaps)))]
    # integer-typed tenor dates (years, as the library's own helper declares them: [5, 6, ..., 10]) in a quarter of the cases
    if draw(st.integers(0, 3)) == 0:
        t0 = draw(st.integers(1, 5))
        steps = [draw(st.integers(1, 3)) for _ in range(m)]
        tenors = [int(v) for v in np.concatenate(([t0], t0 + np.cumsum(steps)))]
    return {"model": draw(st.sampled_from(["forward", "libor"])), "tenors": tenors,
            "rates": [draw(st.one_of(st.just(0.0), _f(0.0, 0.15))) for _ in range(m)],
            "frac": [draw(st.floats(0.0, 1.0)) for _ in range(6)]}


def body_df(case):
    from rpylib.model.levydrivensde.levyforwardmodel import LevyForwardModel
    from rpylib.model.levydrivensde.levylibormodel import LevyLiborModel

    out = []
    tenors, rates = case["tenors"], np.array(case["rates"], dtype=float)
    m = len(rates)
    driver = build_model({"family": "hem", "params": {"sigma": 0.0, "p": 0.5, "eta1": 10.0, "eta2": 10.0, "intensity": 1.0}, "exp": None})
    cls = LevyForwardModel if case["model"] == "forward" else LevyLiborModel
    kw = {"ois_rates": rates} if case["model"] == "forward" else {"libor_rates": rates}
    model = cls(tenors=list(tenors), sigma=np.full((m, 1), 0.1), driver=driver, **kw)
    tag = f"C16/df/{case['model']}"
    detail = f"case={case}"
    if float(model.df(0.0)) != 1.0:
        out.append(Violation(f"{tag}/not-one-at-time-zero", f"df(0)={model.df(0.0)}; {detail}"))
    mesh = set(np.linspace(0.0, tenors[-1], 41).tolist())
    for T in tenors:
        mesh |= {T, float(np.nextafter(T, 0.0)), float(np.nextafter(T, np.inf))}
    for f in case["frac"]:
        mesh.add(f * tenors[-1])
    mesh = sorted(t for t in mesh if 0.0 <= t <= tenors[-1])
    vals = np.array([float(model.df(t)) for t in mesh])
    if np.any(~np.isfinite(vals)) or np.any(vals <= 0):
        out.append(Violation(f"{tag}/not-positive", f"{vals.min()}; {detail}"))
        return out
    inc = np.diff(vals)
    if np.any(inc > 1e-12):
        j = int(np.argmax(inc))
        out.append(Violation(f"{tag}/increasing-in-time",
                             f"df({mesh[j]})={vals[j]} < df({mesh[j + 1]})={vals[j + 1]}; {detail}"))
    for T in tenors[:-1]:
        lo, hi = float(model.df(np.nextafter(T, 0.0))), float(model.df(np.nextafter(T, np.inf)))
        if abs(lo - hi) > 1e-9:
            out.append(Violation(f"{tag}/discontinuous-at-a-tenor", f"df({T}-)={lo}, df({T}+)={hi}; {detail}"))
            break
    # reference: simple compounding of the initial curve, rate x0[0] on [0, T_1] and x0[k] on [T_k, T_k+1]
    for t in mesh:
        acc, prev = 1.0, 0.0
        bounds = [tenors[0]] + list(tenors[1:])
        rr = [rates[0]] + list(rates)
        for b, r in zip(bounds, rr):
            if t <= prev:
                break
            acc *= 1.0 + r * (min(t, b) - prev)
            prev = b
        ref = 1.0 / acc
        if abs(float(model.df(t)) - ref) > 1e-12:
            out.append(Violation(f"{tag}/differs-from-simple-compounding-of-the-initial-curve",
                                 f"df({t})={model.df(t)} vs {ref}; {detail}"))
            break
    return out


def classify_df(case):
    _int = all(isinstance(t, int) for t in case["tenors"])
    m = len(case["rates"])
    return [case["model"], f"periods={m}", "zero-rate" if any(r == 0 for r in case["rates"]) else "positive-rates",
            "integer-tenors" if _int else "float-tenors"], m >= 2


SUBCHECKS = [
    SubCheck("euler-scheme", body_sde, classify_sde,
             rule="driver (1-d chain of every family, or 2-d Clayton copula chain) x coefficient function (Constant m x d, "
                  "DiagX, Libor-type sigma*x) x initial values x levels 0 (single process) / 1..2 (coupled pair): "
                  "captured driver path -> harness Euler recursion step by step, plus closed forms for constant and "
                  "diagonal coefficients; non-trivial = >= 3 driver steps (single: with >= 1 jump)",
             strategy=strat_sde, budget={"quick": 800, "thorough": 6000}, shards={"quick": 16, "thorough": 16}),
    SubCheck("discount-factors", body_df, classify_df,
             rule="LevyForwardModel / LevyLiborModel with 1..6 periods, rates >= 0 (incl. 0), increasing tenors: df(0)=1, "
                  "positive, non-increasing on a 41-point mesh united with every tenor and its float neighbours, "
                  "continuous at tenors, equal to simple compounding of the initial curve; non-trivial = >= 2 periods",
             strategy=strat_df, budget={"quick": 2400, "thorough": 12000}),
]
