"""C20 - calibration reprices its target; derived parameters stay in sync with updates."""
from __future__ import annotations

import copy
import math

import numpy as np
from hypothesis import strategies as st

from vlib.core import SubCheck, Violation
from vlib.models import _f, branch_of, build_model, build_params

PROPERTY_ID = "C20"
ASSUMPTIONS = [
    "market prices for calibrate_model_parameter are produced by the same model at a drawn 'true' parameter inside the "
    "interval, so that a solution exists by construction",
    "repricing tolerance 1e-8*spot (brentq default xtol 2e-12 on the parameter)",
]

CALIB = {"hem": ("sigma", (0.0, 1.0)), "merton": ("mu_j", (0.0, 1.0)), "cgmy": ("c", (1e-12, 20.0)), "vg": ("sigma", (0.00001, 1.0))}
OTHER = {"hem": [("intensity", (0.01, 30.0)), ("eta1", (2.0, 80.0))], "merton": [("sigma", (0.0, 1.0)), ("sigma_j", (0.01, 1.0))],
         "cgmy": [("g", (1.5, 60.0)), ("m", (1.5, 60.0))], "vg": [("nu", (0.01, 2.0))]}


@st.composite
def strat_model(draw):
    fam = draw(st.sampled_from(["hem", "merton", "vg", "cgmy"]))
    if fam == "hem":
        p = {"sigma": draw(_f(0.02, 0.4)), "p": draw(_f(0.1, 0.9)), "eta1": draw(_f(5.0, 50.0)), "eta2": draw(_f(5.0, 50.0)),
             "intensity": draw(_f(0.5, 8.0))}
    elif fam == "merton":
        p = {"sigma": draw(_f(0.02, 0.4)), "mu_j": draw(_f(0.0, 0.2)), "sigma_j": draw(_f(0.03, 0.3)), "intensity": draw(_f(0.5, 8.0))}
    elif fam == "vg":
        p = {"sigma": draw(_f(0.05, 0.4)), "nu": draw(_f(0.05, 0.8)), "theta": draw(_f(-0.3, 0.3))}
    else:
        p = {"c": draw(_f(0.05, 3.0)), "g": draw(_f(3.0, 30.0)), "m": draw(_f(3.0, 30.0)),
             "y": draw(st.sampled_from([-0.5, 0.0, 0.3, 0.7, 1.0, 1.3, 1.6]))}
    return {"family": fam, "params": p, "exp": {"spot": draw(_f(5.0, 300.0)), "r": draw(_f(0.0, 0.08)), "d": draw(_f(0.0, 0.06))}}


@st.composite
def strat_calib(draw, tier):
    spec = draw(strat_model())
    fam = spec["family"]
    which = draw(st.sampled_from(["default"] + [f"other{i}" for i in range(len(OTHER[fam]))]))
    name, interval = CALIB[fam] if which == "default" else OTHER[fam][int(which[5:])]
    lo, hi = interval
    true = float(f"{lo + draw(st.floats(0.05, 0.95)) * (min(hi, lo + 10 * (spec['params'][name] + 0.1)) - lo):.6g}")
    if fam in ("hem", "merton") and draw(st.integers(0, 7)) == 0:
        # a quiet market a few days before expiry: volatility of about one percent, rare jumps (total standard deviation of
        # the target below 1e-3)
        spec["params"]["intensity"] = draw(_f(0.01, 0.05))
        return {"model": spec, "param": CALIB[fam][0], "interval": list(CALIB[fam][1]), "true": true,
                "T": draw(st.sampled_from([1 / 365, 2 / 365, 3 / 365])), "product": "call", "moneyness": 1.0,
                "bs_sigma": draw(_f(0.008, 0.02)), "mode": "default-atm", "recalibrate": None, "spot_move": None,
                "quiet": True}
    return {"model": spec, "param": name, "interval": [lo, hi], "true": true, "T": draw(_f(0.1, 3.0)),
            "product": draw(st.sampled_from(["call", "put", "forward"])), "moneyness": draw(_f(0.8, 1.25)),
            "bs_sigma": draw(_f(0.05, 0.6)), "mode": draw(st.sampled_from(["generic", "default-atm"])),
            "recalibrate": draw(st.sampled_from([None, 0.0, 3e-6, -5e-6, 1e-3, 0.2])),
            "spot_move": draw(st.sampled_from([None, None, 0.8, 0.95, 1.2]))}


def _snapshot(model):
    p = model.levy_model.parameters
    return copy.deepcopy(p.__dict__), float(model.omega), float(model.levy_triplet.a)


def _differs_from_direct(fam, got, direct, u_values=(0.7, -1.3, 2.1 + 0.2j)):
    """first difference between a model and one constructed directly with the same parameter values, or None"""
    pr, pd_ = got.levy_model.parameters.__dict__, direct.levy_model.parameters.__dict__
    for k_ in pd_:
        a, b = pr.get(k_), pd_[k_]
        try:  # (fields may be scalars or arrays)
            same = a is not None and np.shape(a) == np.shape(b) and bool(np.allclose(np.asarray(a, dtype=float),
                                                                                      np.asarray(b, dtype=float),
                                                                                      rtol=1e-13, atol=0, equal_nan=True))
        except (TypeError, ValueError):
            same = a == b
        if not same:
            return f"cached-field-out-of-sync/{k_}", f"{k_}={a!r}, direct construction {b!r}"
    for u in u_values:
        a, b = complex(got.levy_model.levy_exponent(u)), complex(direct.levy_model.levy_exponent(u))
        if not (abs(a - b) <= 1e-12 * (1 + abs(b)) or (a != a and b != b)):
            return "exponent-out-of-sync", f"u={u}: {a} vs {b}"
    nu_r, nu_d = got.levy_triplet.nu, direct.levy_triplet.nu
    for (x, y) in ((0.05, 0.8), (-0.9, -0.03)):
        a, b = float(nu_r.integrate(x, y)), float(nu_d.integrate(x, y))
        if not (abs(a - b) <= 1e-12 * (1 + abs(b)) or (a != a and b != b)):
            return "measure-out-of-sync", f"mass[{x},{y}]: {a} vs {b}"
        a, b = float(nu_r.integrate_against_xx(x, y)), float(nu_d.integrate_against_xx(x, y))
        if not (abs(a - b) <= 1e-12 * (1 + abs(b)) or (a != a and b != b)):
            return "measure-out-of-sync", f"second moment on [{x},{y}]: {a} vs {b}"
    for x in (0.11, -0.07):
        a, b = float(nu_r(x)), float(nu_d(x))
        if not (abs(a - b) <= 1e-12 * (1 + abs(b)) or (a != a and b != b)):
            return "measure-out-of-sync", f"density at {x}: {a} vs {b}"
    a, b = float(got.omega), float(direct.omega)
    if not (abs(a - b) <= 1e-12 * (1 + abs(b)) or (a != a and b != b)):
        return "omega-out-of-sync", f"{a} vs {b}"
    # (and against the model's own exponent: omega = -psi(-i), whatever both objects may have taken from a shared store)
    c = -complex(got.levy_model.levy_exponent(-1j)).real
    if not (abs(a - c) <= 1e-10 * (1 + abs(c)) or (a != a and c != c)):
        return "omega-out-of-sync", f"omega {a} vs -psi(-i) = {c}"
    a, b = got.process_drift(), direct.process_drift()
    if not np.allclose(a, b, rtol=1e-12, atol=1e-14, equal_nan=True):
        return "process-drift-out-of-sync", f"{a} vs {b}"
    return None


def _bs_call(spot, strike, r, d, sigma, T):
    """Black-Scholes call written out (the calibration target is not read from the library's closed form)"""
    from scipy.stats import norm

    sd = sigma * math.sqrt(T)
    fwd = spot * math.exp((r - d) * T)
    if sd <= 0:
        return math.exp(-r * T) * max(fwd - strike, 0.0)
    d1 = (math.log(fwd / strike) + 0.5 * sd * sd) / sd
    return math.exp(-r * T) * (fwd * norm.cdf(d1) - strike * norm.cdf(d1 - sd))


def body_calib(case):
    from rpylib.model.utils import calibrate_model_parameter, run_default_calibration
    from rpylib.numerical.closedform.cfblackscholes import CFBlackScholes
    from rpylib.numerical.cosmethod import COSPricer
    from rpylib.product.payoff import Forward, PayoffType, Vanilla
    from rpylib.product.product import Product
    from rpylib.product.underlying import Spot

    out = []
    spec = case["model"]
    fam = spec["family"]
    model = build_model(spec)
    spot = spec["exp"]["spot"]
    if case.get("spot_move") and case["mode"] == "default-atm":
        # the (settable) spot is re-assigned after construction and before the calibration: at the money = the live spot
        spot = float(f"{spot * case['spot_move']:.6g}")
        model.spot = spot
        spec = dict(spec, exp=dict(spec["exp"], spot=spot))
    T = case["T"]
    detail = f"case={case}"
    before = _snapshot(model)
    if case["mode"] == "default-atm":
        try:
            cal = run_default_calibration(model, maturity=T, bs_sigma=case["bs_sigma"])
        except ValueError:
            out.append(Violation("LABEL:no-solution-in-the-default-interval"))
            cal = None
        if cal is not None:
            if type(cal) is not type(model):
                out.append(Violation(f"C20/default-calibration/{fam}/returns-another-model-type", f"{type(cal)}; {detail}"))
            target = _bs_call(spot, spot, spec["exp"]["r"], spec["exp"]["d"], case["bs_sigma"], T)
            got = float(np.asarray(COSPricer(cal).call(np.array([spot]), T)).ravel()[0])
            if abs(got - target) > 1e-8 * spot:
                out.append(Violation(f"C20/default-calibration/{fam}/atm-call-differs-from-black-scholes",
                                     f"calibrated ATM call {got!r} vs Black-Scholes {target!r}; {detail}"))
            name, (lo, hi) = CALIB[fam]
            v = getattr(cal.levy_model.parameters, name)
            if not lo <= v <= hi:
                out.append(Violation(f"C20/default-calibration/{fam}/parameter-outside-the-interval", f"{name}={v}; {detail}"))
            # the calibrated model behaves as one constructed directly with the final values
            direct = build_model({"family": fam, "params": dict(spec["params"], **{name: float(v)}), "exp": spec["exp"]})
            bad = _differs_from_direct(fam, cal, direct)
            if bad:
                out.append(Violation(f"C20/default-calibration/{fam}/calibrated-model-differs-from-direct-construction/{bad[0]}",
                                     f"{bad[1]}; {detail}"))
            # the calibrated model is itself calibrated again (same or slightly / clearly moved volatility): same contract
            bump = case.get("recalibrate")
            if bump is not None and not out:
                sig2 = case["bs_sigma"] * (1.0 + bump)
                snap = _snapshot(cal)
                try:
                    cal2 = run_default_calibration(cal, maturity=T, bs_sigma=sig2)
                except ValueError:
                    cal2 = None
                if cal2 is not None:
                    target2 = _bs_call(spot, spot, spec["exp"]["r"], spec["exp"]["d"], sig2, T)
                    got2 = float(np.asarray(COSPricer(cal2).call(np.array([spot]), T)).ravel()[0])
                    if abs(got2 - target2) > 1e-8 * spot:
                        out.append(Violation(f"C20/default-calibration/{fam}/recalibrated/atm-call-differs-from-black-scholes",
                                             f"volatility moved by {bump:g} (relative): ATM call {got2!r} vs Black-Scholes "
                                             f"{target2!r}; {detail}"))
                    if repr(_snapshot(cal)) != repr(snap):
                        out.append(Violation(f"C20/default-calibration/{fam}/recalibrated/input-model-modified", detail))
                    v2 = getattr(cal2.levy_model.parameters, name)
                    direct2 = build_model({"family": fam, "params": dict(spec["params"], **{name: float(v2)}), "exp": spec["exp"]})
                    bad = _differs_from_direct(fam, cal2, direct2)
                    if bad:
                        out.append(Violation(f"C20/default-calibration/{fam}/recalibrated/differs-from-direct-construction/{bad[0]}",
                                             f"{bad[1]}; {detail}"))
    else:
        name = case["param"]
        true_spec = {"family": fam, "params": dict(spec["params"], **{name: case["true"]}), "exp": spec["exp"]}
        try:
            true_model = build_model(true_spec)
        except ValueError:
            return [Violation("REJECTED", "true parameter not admissible")]
        k = spot * case["moneyness"]
        if case["product"] == "forward":
            payoff = Forward(strike=k)
        else:
            payoff = Vanilla(strike=k, payoff_type=PayoffType.CALL if case["product"] == "call" else PayoffType.PUT)
        product = Product(payoff_underlying=Spot(), payoff=payoff, maturity=T)
        market = float(np.asarray(COSPricer(true_model).price(product)).ravel()[0])
        if not math.isfinite(market):
            return [Violation("REJECTED", "non-finite market price")]
        try:
            val = float(calibrate_model_parameter(model, name, tuple(case["interval"]), product, market))
        except ValueError:
            # a solution exists inside the interval by construction; brentq needs a sign change at the end points, which
            # a non-monotone price (or a forward, which does not depend on the parameter) does not guarantee
            out.append(Violation("LABEL:no-sign-change-at-the-interval-ends"))
            val = None
        if val is not None:
            lo, hi = case["interval"]
            if not lo <= val <= hi:
                out.append(Violation(f"C20/calibration/{fam}/{name}/value-outside-the-interval", f"{val}; {detail}"))
            rebuilt = build_model({"family": fam, "params": dict(spec["params"], **{name: val}), "exp": spec["exp"]})
            price = float(np.asarray(COSPricer(rebuilt).price(product)).ravel()[0])
            if abs(price - market) > 1e-8 * spot:
                out.append(Violation(f"C20/calibration/{fam}/{name}/rebuilt-model-does-not-reprice-the-target",
                                     f"calibrated {name}={val!r}: price {price!r} vs market {market!r}; {detail}"))
            if abs(val - case["true"]) > 0.01 * abs(case["true"]):
                out.append(Violation("LABEL:another-root-than-the-true-parameter"))
    after = _snapshot(model)
    if repr(before) != repr(after):
        out.append(Violation(f"C20/calibration/{fam}/input-model-modified", f"{before} -> {after}; {detail}"))
    return out


def classify_calib(case):
    moved = abs(case["true"] - case["model"]["params"][case["param"]]) > 0.01 * abs(case["model"]["params"][case["param"]] + 1e-12)
    return [branch_of(case["model"]), case["mode"] + ("/quiet-short-dated" if case.get("quiet") else ""),
            case["param"] if case["mode"] == "generic" else "default-parameter",
            case["product"] if case["mode"] == "generic" else "atm-call"], (case["mode"] == "default-atm" or moved)


# ------------------------------------------------------------------------------------ parameter objects
VALID = {"hem": {"sigma": (0.0, 0.6), "p": (0.05, 1.0), "eta1": (1.5, 60.0), "eta2": (0.5, 60.0), "intensity": (0.0, 20.0)},
         "merton": {"sigma": (0.0, 0.6), "mu_j": (0.0, 0.4), "sigma_j": (0.01, 0.5), "intensity": (0.0, 20.0)},
         "vg": {"sigma": (0.02, 0.6), "nu": (0.01, 2.0), "theta": (-0.5, 0.5)},
         "cgmy": {"c": (0.01, 5.0), "g": (1.5, 40.0), "m": (1.5, 40.0), "y": (-1.5, 1.9)},
         "bs": {"sigma": (0.01, 0.8)}}
INVALID = {"hem": {"sigma": -0.1, "p": 0.0, "eta1": 0.0, "eta2": -1.0, "intensity": -1.0},
           "merton": {"sigma": -0.1, "mu_j": -0.1, "sigma_j": 0.0, "intensity": -0.5},
           "vg": {"sigma": -0.2}, "cgmy": {"c": 0.0, "g": -1.0, "m": -0.5, "y": 2.0}, "bs": {"sigma": -0.1}}


@st.composite
def strat_params(draw, tier):
    spec = draw(strat_model())
    if draw(st.integers(0, 5)) == 0:
        spec = {"family": "bs", "params": {"sigma": draw(st.sampled_from([0.02, 0.05, 0.2, 0.6]))}, "exp": spec["exp"]}
    fam = spec["family"]
    ops = []
    for _ in range(draw(st.integers(1, 8))):
        name = draw(st.sampled_from(sorted(VALID[fam])))
        if draw(st.integers(0, 4)) == 0 and name in INVALID[fam]:
            # (a constrained parameter refuses its inadmissible values and NaN alike; "nan" is decoded in the body)
            ops.append(["set-invalid", name, INVALID[fam][name] if draw(st.booleans()) else "nan"])
        else:
            lo, hi = VALID[fam][name]
            ops.append(["set", name, float(f"{lo + draw(st.floats(0, 1)) * (hi - lo):.6g}")])
        if draw(st.integers(0, 2)) == 0:
            ops.append(["init"])
    # parameters may be given as integers at construction (the library's own defaults are: g=15, m=20) and updated with
    # non-integer values later
    if draw(st.integers(0, 3)) == 0:
        for k_ in spec["params"]:
            v = spec["params"][k_]
            lo, hi = VALID[fam].get(k_, (None, None))
            if lo is not None and abs(v) >= 1 and lo <= round(v) <= hi and k_ != "y":
                spec["params"][k_] = int(round(v))
    return {"model": spec, "ops": ops, "u": [draw(_f(-4.0, 4.0)) for _ in range(3)]}


def body_params(case):
    out = []
    spec = case["model"]
    fam = spec["family"]
    params = build_params(spec)
    final = dict(spec["params"])
    detail = f"case={case}"
    # (a model is built from the parameters before they are updated: the history of a calibration or of a bump)
    try:
        build_model(dict(spec, route="direct"))
    except (ValueError, ZeroDivisionError, OverflowError):
        pass
    for op in case["ops"]:
        if op[0] == "init":
            params.initialisation()
        elif op[0] == "set":
            setattr(params, op[1], op[2])
            final[op[1]] = op[2]
        else:
            old = getattr(params, op[1])
            bad = float("nan") if op[2] == "nan" else op[2]
            try:
                setattr(params, op[1], bad)
            except ValueError:
                if getattr(params, op[1]) != old:
                    out.append(Violation(f"C20/parameters/{fam}/rejected-assignment-changed-the-value", f"{op}; {detail}"))
                continue
            out.append(Violation(f"C20/parameters/{fam}/{op[1]}/invalid-value-accepted", f"{op[1]}={op[2]} accepted; {detail}"))
            return out
    params.initialisation()
    e = spec["exp"]
    from rpylib.model.levymodel.mixed.hem import ExponentialOfHEMModel
    from rpylib.model.levymodel.mixed.merton import ExponentialOfMertonModel
    from rpylib.model.levymodel.purejump.cgmy import ExponentialOfCGMYModel
    from rpylib.model.levymodel.purejump.variancegamma import ExponentialOfVarianceGammaModel

    from rpylib.model.levymodel.mixed.blackscholes import BlackScholesModel

    cls = {"hem": ExponentialOfHEMModel, "merton": ExponentialOfMertonModel, "cgmy": ExponentialOfCGMYModel,
           "vg": ExponentialOfVarianceGammaModel, "bs": BlackScholesModel}[fam]
    try:
        rebuilt = cls(spot=e["spot"], r=e["r"], d=e["d"], parameters=params)
        direct = build_model({"family": fam, "params": final, "exp": e})
    except (ValueError, ZeroDivisionError, OverflowError):
        return out + [Violation("REJECTED", "final parameter set not admissible for the exponential model")]
    _po = lambda m_: getattr(m_.levy_model, "parameters", None) or m_.parameters  # noqa: E731  (Black-Scholes keeps them on the model)
    pr, pd_ = _po(rebuilt).__dict__, _po(direct).__dict__
    for k_ in pd_:
        a, b = pr.get(k_), pd_[k_]
        try:  # (fields may be scalars or arrays)
            same = a is not None and np.shape(a) == np.shape(b) and bool(np.allclose(np.asarray(a, dtype=float),
                                                                                      np.asarray(b, dtype=float),
                                                                                      rtol=1e-14, atol=0, equal_nan=True))
        except (TypeError, ValueError):
            same = a == b
        if not same:
            if True:
                out.append(Violation(f"C20/parameters/{fam}/cached-field-out-of-sync/{k_}",
                                     f"after the updates {k_}={a!r}, direct construction {b!r}; {detail}"))
                return out
    for u in case["u"]:
        a, b = complex(rebuilt.levy_model.levy_exponent(u)), complex(direct.levy_model.levy_exponent(u))
        if not (abs(a - b) <= 1e-12 * (1 + abs(b)) or (a != a and b != b)):
            out.append(Violation(f"C20/parameters/{fam}/exponent-out-of-sync", f"u={u}: {a} vs {b}; {detail}"))
            return out
    nu_r, nu_d = rebuilt.levy_triplet.nu, direct.levy_triplet.nu
    for (x, y) in ((0.05, 0.8), (-0.9, -0.03)):
        a, b = float(nu_r.integrate(x, y)), float(nu_d.integrate(x, y))
        if not (abs(a - b) <= 1e-12 * (1 + abs(b)) or (a != a and b != b)):
            out.append(Violation(f"C20/parameters/{fam}/measure-out-of-sync", f"mass[{x},{y}]: {a} vs {b}; {detail}"))
            return out
    for attr in ("omega",):
        a, b = float(getattr(rebuilt, attr)), float(getattr(direct, attr))
        if not (abs(a - b) <= 1e-12 * (1 + abs(b)) or (a != a and b != b)):
            out.append(Violation(f"C20/parameters/{fam}/{attr}-out-of-sync", f"{a} vs {b}; {detail}"))
        c = -complex(rebuilt.levy_model.levy_exponent(-1j)).real
        if not (abs(a - c) <= 1e-10 * (1 + abs(c)) or (a != a and c != c)):
            out.append(Violation(f"C20/parameters/{fam}/{attr}-out-of-sync", f"omega {a} vs -psi(-i) = {c} of the rebuilt model; {detail}"))
    a, b = rebuilt.process_drift(), direct.process_drift()
    if not np.allclose(a, b, rtol=1e-12, atol=1e-14, equal_nan=True):
        out.append(Violation(f"C20/parameters/{fam}/process-drift-out-of-sync", f"{a} vs {b}; {detail}"))
    # the stated cumulants (the COS pricer builds its range from them) and an at-the-money COS call
    for k_ in (1, 2, 4):
        a, b = (float(getattr(m_.cumulant, f"cumulant{k_}")(0.7)) for m_ in (rebuilt, direct))
        if not (abs(a - b) <= 1e-12 * (1 + abs(b)) or (a != a and b != b)):
            out.append(Violation(f"C20/parameters/{fam}/cumulant-out-of-sync", f"cumulant {k_}: {a} vs {b}; {detail}"))
            return out
    from rpylib.numerical.cosmethod import COSPricer

    try:
        a = float(np.ravel(COSPricer(rebuilt).call(strikes=e["spot"], time=0.7))[0])
        b = float(np.ravel(COSPricer(direct).call(strikes=e["spot"], time=0.7))[0])
    except (ValueError, ZeroDivisionError, OverflowError):
        return out
    if not (abs(a - b) <= 1e-10 * (1 + abs(b)) or (a != a and b != b)):
        out.append(Violation(f"C20/parameters/{fam}/cos-price-out-of-sync", f"ATM call {a} vs {b}; {detail}"))
    return out


def classify_params(case):
    kinds = [o[0] for o in case["ops"]]
    nsets = sum(1 for k_ in kinds if k_ == "set")
    labels = [branch_of(case["model"])]
    if "set-invalid" in kinds:
        labels.append("invalid-assignment")
    # >= 2 assignments before an initialisation
    run, best = 0, 0
    for k_ in kinds:
        run = run + 1 if k_ == "set" else (0 if k_ == "init" else run)
        best = max(best, run)
    return labels, best >= 2


SUBCHECKS = [
    SubCheck("calibration-reprices-its-target", body_calib, classify_calib,
             rule="model type (HEM, Merton, VG, CGMY incl. y in {-0.5,0,1,1.6}) x start parameters x maturity x either "
                  "the default ATM calibration against a Black-Scholes volatility, or calibrate_model_parameter on the "
                  "default or another parameter against a call/put/forward priced by the same model at a drawn true "
                  "value: returned value in the interval and rebuilt model reprices the target (1e-8 spot), or raises; "
                  "input model untouched; calibrated model = direct construction; non-trivial = default calibration or "
                  "parameter moved by > 1%",
             strategy=strat_calib, budget={"quick": 720, "thorough": 4000}, shards={"quick": 16, "thorough": 16}),
    SubCheck("parameter-updates-stay-in-sync", body_params, classify_params,
             rule="operation lists over one Parameters object (assign valid value, assign invalid value, "
                  "initialisation()) then rebuild: cached fields, levy_exponent, measure integrals, omega and "
                  "process_drift equal those of a model constructed directly with the final values; invalid assignments "
                  "raise ValueError and leave the old value; non-trivial = >= 2 assignments before an initialisation",
             strategy=strat_params, budget={"quick": 3600, "thorough": 20000}),
]
