"""C07 - standard Monte-Carlo price, error and control-variate adjustment are textbook.

The real standard engine (path manager, product, statistics, control variates) is run on a scripted process
that returns a Hypothesis-drawn list of paths, each exactly once; the oracle is a numpy reference.
"""
from __future__ import annotations

import math

import numpy as np
from hypothesis import strategies as st

from vlib.core import SubCheck, Violation
from vlib.models import _f
from vlib.scripted import ScriptedProcess

PROPERTY_ID = "C07"
ASSUMPTIONS = [
    "the process is scripted (returns the drawn paths in order); engine, path manager, product, statistics and "
    "control variates are the real ones",
    "control-variate comparisons are made when the controls' covariance matrix has condition number < 1e4; the "
    "library's documented near-singular guard (some |entry| < 1e-12 => b* = 0) is mirrored",
]


@st.composite
def strat_case(draw, tier):
    n = draw(st.one_of(st.integers(1, 6), st.integers(2, 200 if tier == "thorough" else 60)))
    d = draw(st.sampled_from([1, 1, 1, 2, 3]))
    rep = draw(st.sampled_from(["IDENDITY", "LOG"]))
    vals = [[draw(_f(0.2, 300.0)) for _ in range(d)] for _ in range(n)]
    if draw(st.integers(0, 5)) == 0:
        vals = [vals[0]] * n  # constant payoff
    # a forward has payoff dimension 1: on several assets only vanilla payoffs with one strike per asset
    kind = draw(st.sampled_from(["forward", "call", "put"] if d == 1 else ["call", "put"]))
    if d == 1:
        pdim = draw(st.sampled_from([1, 1, 2, 3, 4]))
    else:
        pdim = d
    strikes = [draw(_f(0.5, 250.0)) for _ in range(pdim)]
    if kind == "forward":
        pdim, strikes = (1, strikes[:1]) if d == 1 else (d, strikes)
    ncv = draw(st.integers(0, 3)) if d == 1 else 0
    und_index = None
    controls = [{"kind": ["forward", "call", "put"][i], "strike": draw(_f(0.5, 250.0)), "price": draw(_f(-50.0, 200.0))}
                for i in range(ncv)]
    if d > 1 and draw(st.booleans()):
        # several assets: forwards on single assets (NthSpot underlyings) as controls of the strip of vanillas on the spots
        idx = draw(st.lists(st.integers(1, d), min_size=1, max_size=min(2, d), unique=True))
        controls = [{"kind": "nthspot", "index": i, "strike": draw(_f(0.5, 250.0)), "price": draw(_f(-50.0, 200.0))} for i in idx]
        ncv = len(controls)
        if draw(st.booleans()):
            # the product itself is written on one asset (an NthSpot underlying, like its controls but another index or the
            # same): one strike
            und_index = draw(st.integers(1, d))
            strikes = strikes[:1]
    # controls with one strike and one price per payoff component (vector payoffs): component k of the payoff is then
    # adjusted with component k of every control
    if ncv and pdim > 1 and kind != "forward" and controls[0]["kind"] != "nthspot" and draw(st.booleans()):
        for i, c in enumerate(controls):
            c["kind"] = ["call", "put", "call"][i]
            c["strikes"] = [draw(_f(0.5, 250.0)) for _ in range(pdim)]
            c["prices"] = [draw(_f(-50.0, 200.0)) for _ in range(pdim)]
    # size of the underlying: equity-like (1), rate-like (1e-3) or tiny (1e-6) values, strikes and control prices
    scale = draw(st.sampled_from([1.0, 1.0, 1e-3, 1e-6]))
    if scale != 1.0:
        vals = [[v * scale for v in row] for row in vals]
        strikes = [k * scale for k in strikes]
        for c in controls:
            for key in ("strike", "price"):
                c[key] = c[key] * scale
            for key in ("strikes", "prices"):
                if key in c:
                    c[key] = [v * scale for v in c[key]]
    return {"n": n, "d": d, "rep": rep, "vals": vals, "kind": kind, "strikes": strikes, "scale": scale, "und_index": und_index,
            # (a zero notional - a switched-off leg - and a negative one are notionals like any other)
            "notional": draw(st.sampled_from([1.0, 0.01, 1000.0, 37.5, 1.0, 37.5, 0.0, 0, -3.0])), "df": draw(_f(0.3, 1.0)),
            "controls": controls, "price_is_sample_mean": draw(st.booleans()) if ncv else False,
            "spot_stats": draw(st.booleans()), "maturity": draw(_f(0.1, 3.0))}


@st.composite
def strat_mp(draw, tier):
    case = draw(strat_case(tier))
    case["n"] = max(case["n"], 5)
    while len(case["vals"]) < case["n"]:
        case["vals"] = case["vals"] + [[v * (1.0 + 0.01 * (len(case["vals"]) + 1)) for v in case["vals"][0]]]
    case["nproc"] = draw(st.sampled_from([2, 2, 3]))
    case["spot_stats"] = True
    case["price_is_sample_mean"] = False
    return case


def _payoff(kind, strikes, x):
    k = np.array(strikes, dtype=float)
    x = np.asarray(x, dtype=float)
    if kind == "forward":
        return x - k
    if kind == "call":
        return np.maximum(x - k, 0.0)
    return np.maximum(k - x, 0.0)


def body(case):
    from rpylib.montecarlo.configuration import ConfigurationStandard
    from rpylib.montecarlo.path import StochasticJumpPath
    from rpylib.montecarlo.standard.engine import Engine
    from rpylib.process.process import ProcessRepresentation
    from rpylib.product.payoff import Forward, PayoffType, Vanilla
    from rpylib.product.product import ControlVariates, Product
    from rpylib.product.underlying import Spot

    out = []
    n, d, T = case["n"], case["d"], case["maturity"]
    rep = ProcessRepresentation[case["rep"]]
    spots = np.array(case["vals"], dtype=float)  # (n, d) terminal spot values
    sim = np.log(spots) if case["rep"] == "LOG" else spots
    times = np.array([0.0, T])
    paths = []
    for row in sim:
        if d == 1:
            paths.append(StochasticJumpPath(times, np.zeros(2), np.array([0.0, row[0]])))
        else:
            paths.append(StochasticJumpPath(times, np.zeros((d, 2)), np.stack([np.zeros(d), row], axis=1)))
    proc = ScriptedProcess(paths, df=case["df"], representation=rep, dimension=d)

    def mk_payoff(kind, strikes):
        if kind == "forward":
            return Forward(strike=strikes[0] if len(strikes) == 1 else np.array(strikes))
        pt = PayoffType.CALL if kind == "call" else PayoffType.PUT
        return Vanilla(strike=strikes[0] if len(strikes) == 1 else list(strikes), payoff_type=pt)

    from rpylib.product.underlying import NthSpot as _NthSpot

    product = Product(payoff_underlying=_NthSpot(case["und_index"]) if case.get("und_index") else Spot(),
                      payoff=mk_payoff(case["kind"], case["strikes"]), maturity=T,
                      notional=case["notional"])
    df, notional = case["df"], case["notional"]
    vec = bool(case["controls"]) and "strikes" in case["controls"][0]

    def references(spots):
        """(Y, X, X3, prices, prices3): discounted notional-scaled payoff and control samples of the given spots"""
        und = spots[:, 0] if d == 1 else spots
        und_y = spots[:, case["und_index"] - 1] if case.get("und_index") else und
        Y = (np.array([notional * _payoff(case["kind"], case["strikes"], x) for x in und_y]) * df).reshape(len(spots), -1)
        X = X3 = prices = prices3 = None
        if case["controls"] and not vec:
            def ctrl(c, x):
                if c["kind"] == "nthspot":
                    return float(np.atleast_1d(x)[c["index"] - 1] - c["strike"]) * df
                return float(_payoff(c["kind"], [c["strike"]], x)[0]) * df

            X = np.array([[ctrl(c, x) for c in case["controls"]] for x in und])
            prices = [c["price"] for c in case["controls"]]
            if case["price_is_sample_mean"]:
                prices = [float(v) for v in X.mean(axis=0)]
        elif vec:
            # X3[path, control, component]
            X3 = np.array([[np.asarray(_payoff(c["kind"], c["strikes"], x), dtype=float) * df for c in case["controls"]]
                           for x in und])
            prices3 = np.array([c["prices"] for c in case["controls"]], dtype=float)  # (control, component)
            if case["price_is_sample_mean"]:
                prices3 = X3.mean(axis=0)
            X = X3[:, :, 0]
            prices = [float(v) for v in prices3[:, 0]]
        return Y, X, X3, prices, prices3

    Y, X, X3, prices, prices3 = references(spots)
    cv = None
    if case["controls"] and not vec:
        from rpylib.product.underlying import NthSpot

        cv = ControlVariates([Product(payoff_underlying=NthSpot(c["index"]), payoff=Forward(strike=c["strike"]), maturity=T)
                              if c["kind"] == "nthspot" else
                              Product(payoff_underlying=Spot(), payoff=mk_payoff(c["kind"], [c["strike"]]), maturity=T)
                              for c in case["controls"]], prices)
    elif vec:
        cv = ControlVariates([Product(payoff_underlying=Spot(), payoff=mk_payoff(c["kind"], c["strikes"]), maturity=T)
                              for c in case["controls"]], [np.array(p) for p in prices3])
    nproc = int(case.get("nproc", 1))
    config = ConfigurationStandard(mc_paths=n, seed=None, control_variates=cv,
                                   activate_spot_statistics=case["spot_stats"], nb_of_processes=nproc)
    engine = Engine(configuration=config, process=proc)
    if nproc == 1:
        stats = engine.price(product)
    else:
        # (an exception raised inside the pool's result callback leaves map_async(...).get() waiting for ever: a time
        # budget, whose expiry is inconclusive, never a violation)
        import signal

        def _expired(signum, frame):
            raise TimeoutError

        previous = signal.signal(signal.SIGALRM, _expired)
        signal.alarm(180)
        try:
            stats = engine.price(product)
        except TimeoutError:
            return [Violation("INCONCLUSIVE", "the worker pool did not return within 180 s")]
        finally:
            signal.alarm(0)
            signal.signal(signal.SIGALRM, previous)
    detail = f"case={ {k: v for k, v in case.items() if k != 'vals'} } first values={case['vals'][:3]}"
    if nproc == 1:
        if proc.calls != n:
            out.append(Violation("C07/number-of-simulated-paths", f"{proc.calls} paths simulated for mc_paths={n}; {detail}"))
            return out
    else:
        # worker processes: every worker replays the scripted list from its own start, so which path lands at which
        # index is the pool's business; the recorded terminal spots (checked against the paths in the single-process
        # route) say which one did, and every one of them must be a scripted path
        sp = np.asarray(stats._spot_underlying_statistics.stats, dtype=float).reshape(n, -1)
        for row in sp:
            if not np.any(np.all(np.isclose(spots.reshape(n, -1), row, rtol=1e-12, atol=0.0), axis=1)):
                out.append(Violation("C07/worker-processes/recorded-spot-is-not-a-scripted-path", f"{row}; {detail}"))
                return out
        spots = sp.reshape(spots.shape)
        Y, X, X3, prices, prices3 = references(spots)
    raw = np.atleast_1d(np.asarray(stats.price(no_control_variates=True), dtype=float))
    ref = Y.mean(axis=0)
    scale = np.abs(Y).max() + abs(notional) * df * (spots.max() + max(case["strikes"]))
    if raw.shape != ref.shape or not np.allclose(raw, ref, rtol=1e-12, atol=1e-12 * scale):
        out.append(Violation("C07/price-is-not-df-times-mean-of-notional-scaled-payoff",
                             f"price={raw}, reference={ref}; {detail}"))
        return out
    err = np.atleast_1d(np.asarray(stats.mc_stddev(no_control_variates=True), dtype=float))
    ref_err = (Y.std(axis=0, ddof=1) / np.sqrt(n)) if n > 1 else np.zeros(Y.shape[1])
    if n == 1:
        if np.any(err != 0.0):
            out.append(Violation("C07/mc-stddev/single-path", f"mc_stddev={err} for one path; {detail}"))
    elif err.shape != ref_err.shape or not np.allclose(err, ref_err, rtol=1e-10, atol=1e-12 * scale):
        key = "C07/mc-stddev/" + ("vector-payoff" if Y.shape[1] > 1 else "scalar-payoff")
        out.append(Violation(key, f"mc_stddev={err}, unbiased sample std / sqrt(n)={ref_err} (n={n}); {detail}"))
    # stored samples: each path used once, in order
    stored = np.asarray(stats._payoff_statistics.stats, dtype=float).reshape(n, -1)
    if not np.allclose(stored, Y, rtol=1e-12, atol=1e-12 * scale):
        out.append(Violation("C07/stored-samples-differ-from-the-paths", f"{stored[:3]} vs {Y[:3]}; {detail}"))
    if case["spot_stats"]:
        sp = np.asarray(stats._spot_underlying_statistics.stats, dtype=float).reshape(n, -1)
        if not np.allclose(sp, spots.reshape(n, -1), rtol=1e-12):
            out.append(Violation("C07/spot-statistics", f"{sp[:3]} vs {spots[:3]}; {detail}"))
    if X is None:
        # without controls there is one set of samples: however the flag is spelled, the same price and error
        for spelled, kw in (("default", {}), ("explicit-False", {"no_control_variates": False})):
            with_cv = np.atleast_1d(np.asarray(stats.price(**kw), dtype=float))
            if with_cv.shape != raw.shape or not np.array_equal(with_cv, raw):
                out.append(Violation(f"C07/price-without-controls-differs/{spelled}", f"{with_cv} vs {raw}; {detail}"))
            err_kw = np.atleast_1d(np.asarray(stats.mc_stddev(**kw), dtype=float))
            if err_kw.shape != err.shape or not np.array_equal(err_kw, err):
                out.append(Violation(f"C07/error-without-controls-differs/{spelled}", f"{err_kw} vs {err}; {detail}"))
        return out
    # control variates
    adj_lib = np.asarray(stats._payoff_statistics_with_cv.stats, dtype=float).reshape(n, -1)
    price_cv = np.atleast_1d(np.asarray(stats.price(), dtype=float))
    price_cv_f = np.atleast_1d(np.asarray(stats.price(no_control_variates=False), dtype=float))
    if price_cv_f.shape != price_cv.shape or not np.array_equal(price_cv_f, price_cv, equal_nan=True):
        out.append(Violation("C07/price-with-controls-differs/explicit-False", f"{price_cv_f} vs {price_cv}; {detail}"))
    if n < 2:
        return out
    xc = X - X.mean(axis=0)
    sx = xc.T @ xc / n
    guard = np.min(np.abs(sx)) < 1e-12
    cond_ok = (not guard) and np.linalg.cond(sx) < 1e4
    for k in range(Y.shape[1]):
        y = Y[:, k]
        if vec:  # component k of the payoff against component k of every control
            X = X3[:, :, k]
            prices = [float(v) for v in prices3[:, k]]
            xc = X - X.mean(axis=0)
            sx = xc.T @ xc / n
            guard = np.min(np.abs(sx)) < 1e-12
            cond_ok = (not guard) and np.linalg.cond(sx) < 1e4
        if guard:
            expect = y
        elif cond_ok:
            b = np.linalg.solve(sx, xc.T @ (y - y.mean()) / n)
            expect = y - (X - np.array(prices)) @ b
        else:
            out.append(Violation("LABEL:ill-conditioned-controls"))
            return out
        # (a component whose payoff and controls all vanish still carries the round-off of the other components' scale)
        sc = np.abs(y).max() + np.abs(X).max() + max(abs(p) for p in prices) + 1e-6 * scale
        if not np.allclose(adj_lib[:, k], expect, rtol=1e-7, atol=1e-7 * sc):
            out.append(Violation(f"C07/control-variates/{len(prices)}-controls/adjusted-samples",
                                 f"component {k}: {adj_lib[:3, k]} vs textbook Y - b*(X - price_X) {expect[:3]} "
                                 f"(prices {prices}); {detail}"))
            return out
        if abs(price_cv[k] - expect.mean()) > 1e-7 * sc:
            out.append(Violation(f"C07/control-variates/{len(prices)}-controls/price",
                                 f"component {k}: {price_cv[k]} vs {expect.mean()}; {detail}"))
        if case["price_is_sample_mean"] and abs(price_cv[k] - y.mean()) > 1e-9 * sc:
            out.append(Violation("C07/control-variates/price-differs-from-raw-mean-although-controls-are-exact",
                                 f"component {k}: {price_cv[k]} vs raw mean {y.mean()}; {detail}"))
        if adj_lib[:, k].var() > y.var() * (1 + 1e-9) + 1e-12 * sc ** 2:
            out.append(Violation("C07/control-variates/adjusted-variance-exceeds-raw",
                                 f"component {k}: {adj_lib[:, k].var()} > {y.var()}; {detail}"))
    return out


def classify(case):
    pdim = len(case["strikes"])
    labels = [f"d={case['d']}", f"payoff-dim={'1' if pdim == 1 else '2+'}", f"controls={len(case['controls'])}",
              f"scale={case.get('scale', 1.0):g}", f"processes={case.get('nproc', 1)}",
              "product-on-one-asset-of-several" if case.get("und_index") else "product-on-the-spot(s)",
              "vector-controls" if case["controls"] and "strikes" in case["controls"][0] else "scalar-or-no-controls",
              case["rep"], case["kind"], "n=1" if case["n"] == 1 else ("n<=6" if case["n"] <= 6 else "n>6")]
    if case["price_is_sample_mean"]:
        labels.append("price=sample-mean")
    const = all(v == case["vals"][0] for v in case["vals"])
    nt = case["n"] >= 3 and not const and (pdim > 1 or len(case["controls"]) >= 1)
    return labels, nt


# ------------------------------------------------------------------------------------ per-path time grids
@st.composite
def strat_grids(draw, tier):
    n = draw(st.integers(2, 40))
    T = draw(_f(0.5, 2.0))
    lengths = draw(st.lists(st.integers(0, 3), min_size=n, max_size=n))  # interior points per path (often equal)
    paths = []
    for k in lengths:
        inner = sorted({float(f"{draw(st.floats(0.02, 0.98)) * T:.6g}") for _ in range(k)})
        vals = [draw(st.floats(-0.4, 0.4)) for _ in range(len(inner) + 1)]
        paths.append({"inner": inner, "jumps": [float(f"{v:.6g}") for v in vals]})
    return {"n": n, "T": T, "paths": paths, "x0": draw(_f(20.0, 150.0)), "drift": draw(st.sampled_from([0.0, 5.0, -12.0, 40.0])),
            "kind": draw(st.sampled_from(["asian-call", "spot-call", "barrier"])), "strike_rel": draw(_f(0.7, 1.3)),
            "notional": draw(st.sampled_from([1.0, 7.0])), "df": draw(_f(0.5, 1.0)), "spot_stats": draw(st.booleans()),
            # a control written on the spot (a forward), i.e. on another underlying type than an Asian product's; the
            # process in identity or log representation; optionally the same configuration / control object has priced
            # a spot call before (controls are re-initialised for every pricing)
            "control": draw(st.sampled_from([None, None, {"strike_rel": 0.9, "price": 3.0}, {"strike_rel": 1.1, "price": -2.0}])),
            "rep": draw(st.sampled_from(["IDENDITY", "LOG"])), "priced_before": draw(st.booleans())}


def body_grids(case):
    """every simulated path carries its own time grid (jump-time simulation): the payoff of a path is evaluated on
    deterministic part (x0 + drift t on *its* times) + its stochastic part, whatever the grids of the paths before it"""
    from rpylib.montecarlo.configuration import ConfigurationStandard
    from rpylib.montecarlo.path import StochasticJumpPath
    from rpylib.montecarlo.standard.engine import Engine
    from rpylib.product.payoff import Barrier, BarrierType, PayoffType, Vanilla
    from rpylib.product.product import Product
    from rpylib.product.underlying import Asian, Spot

    out = []
    n, T, x0, mu = case["n"], case["T"], case["x0"], case["drift"]
    k = case["strike_rel"] * x0
    lib_paths, samples = [], []
    for p in case["paths"]:
        times = np.array([0.0] + p["inner"] + [T])
        # the stochastic part: running sum of scaled jumps at the interior points (the last value is carried to T)
        steps = np.array(p["jumps"][:len(p["inner"])], dtype=float) * 0.1 * x0
        stoch = np.concatenate(([0.0], np.cumsum(steps), [np.sum(steps)]))
        lib_paths.append(StochasticJumpPath(times, np.zeros(len(times)), stoch))
        full = x0 + mu * times + stoch
        if case["kind"] == "asian-call":
            u = float(np.sum(full * np.diff(times, prepend=0.0)) / times[-1])
            y = max(u - k, 0.0)
        elif case["kind"] == "spot-call":
            y = max(full[-1] - k, 0.0)
        else:  # down-and-out call, barrier at 0.9 x0
            # (the library knocks out strictly below the barrier; a path touching it exactly - e.g. x0 + drift*T = 0.9 x0 - is
            # a tie the property does not settle: the reference follows the documented strict comparison)
            y = 0.0 if np.any(full < 0.9 * x0) else max(full[-1] - k, 0.0)
        samples.append(case["notional"] * y * case["df"])
    Y = np.array(samples)
    from rpylib.process.process import ProcessRepresentation
    from rpylib.product.payoff import Forward
    from rpylib.product.product import ControlVariates

    # (barrier payoffs compare the barrier with the raw path: identity representation only, as in C17)
    log_rep = case.get("rep") == "LOG" and case["kind"] != "barrier" and all(np.all(x0 + mu * pp.times() + pp.value_jump() > 0) for pp in lib_paths)
    if log_rep:
        # the same price paths handed over in log representation (deterministic part 0, the whole log-path stochastic)
        lib_paths = [StochasticJumpPath(pp.times(), np.zeros(len(pp.times())), np.log(x0 + mu * pp.times() + pp.value_jump()))
                     for pp in lib_paths]
        rep = ProcessRepresentation.LOG
    else:
        rep = ProcessRepresentation.IDENDITY

    def new_process():
        return ScriptedProcess(list(lib_paths), df=case["df"], representation=rep, x0=0.0 if log_rep else x0,
                               drift=0.0 if log_rep else mu)

    proc = new_process()
    cv, X = None, None
    if case.get("control"):
        kc = case["control"]["strike_rel"] * x0
        cv = ControlVariates([Product(payoff_underlying=Spot(), payoff=Forward(strike=kc), maturity=T)], [case["control"]["price"]])
        finals = np.array([x0 + mu * T + float(np.sum(np.array(p["jumps"][:len(p["inner"])], dtype=float) * 0.1 * x0))
                           for p in case["paths"]])
        X = (finals - kc) * case["df"]
    if case["kind"] == "asian-call":
        und, payoff = Asian(), Vanilla(strike=k, payoff_type=PayoffType.CALL)
    elif case["kind"] == "spot-call":
        und, payoff = Spot(), Vanilla(strike=k, payoff_type=PayoffType.CALL)
    else:
        und, payoff = Spot(), Barrier(strike=k, payoff_type=PayoffType.CALL, barrier_type=BarrierType.DOWN_AND_OUT, barrier=0.9 * x0)
    product = Product(payoff_underlying=und, payoff=payoff, maturity=T, notional=case["notional"])
    config = ConfigurationStandard(mc_paths=n, seed=None, control_variates=cv, activate_spot_statistics=case["spot_stats"],
                                   nb_of_processes=1)
    if case.get("priced_before"):
        Engine(configuration=config, process=new_process()).price(
            Product(payoff_underlying=Spot(), payoff=Vanilla(strike=k, payoff_type=PayoffType.CALL), maturity=T))
    stats = Engine(configuration=config, process=proc).price(product)
    detail = f"case={ {k_: v for k_, v in case.items() if k_ != 'paths'} } first paths={case['paths'][:3]}"
    stored = np.asarray(stats._payoff_statistics.stats, dtype=float).ravel()
    scale = 1.0 + np.abs(Y).max()
    if stored.shape != Y.shape or not np.allclose(stored, Y, rtol=1e-12, atol=1e-12 * scale):
        j = int(np.argmax(np.abs(stored - Y))) if stored.shape == Y.shape else -1
        out.append(Violation(f"C07/per-path-grids/{case['kind']}/sample-is-not-the-payoff-of-its-own-path",
                             f"path {j}: stored {stored[j] if j >= 0 else stored}, payoff of that path {Y[j] if j >= 0 else Y}; {detail}"))
        return out
    price = float(np.asarray(stats.price(no_control_variates=True)).ravel()[0])
    err = float(np.asarray(stats.mc_stddev(no_control_variates=True)).ravel()[0])
    if abs(price - Y.mean()) > 1e-9 * scale or abs(err - Y.std(ddof=1) / math.sqrt(n)) > 1e-9 * scale:
        out.append(Violation(f"C07/per-path-grids/{case['kind']}/price-or-error", f"{price}, {err} vs {Y.mean()}, "
                                                                                   f"{Y.std(ddof=1) / math.sqrt(n)}; {detail}"))
    if X is not None and n >= 3:
        xc = X - X.mean()
        vx = float(xc @ xc) / n
        if vx > 1e-12 and (Y.std() > 0):
            b = float(xc @ (Y - Y.mean())) / n / vx
            adj = Y - b * (X - case["control"]["price"])
            got = np.asarray(stats._payoff_statistics_with_cv.stats, dtype=float).ravel()
            sc = scale + np.abs(X).max() + abs(case["control"]["price"])
            if got.shape != adj.shape or not np.allclose(got, adj, rtol=1e-7, atol=1e-7 * sc):
                out.append(Violation(f"C07/per-path-grids/{case['kind']}/control-on-the-spot/adjusted-samples",
                                     f"{got[:3]} vs textbook Y - b*(X - price) {adj[:3]} (representation {case.get('rep')}, "
                                     f"priced before: {case.get('priced_before')}); {detail}"))
    return out


def classify_grids(case):
    lens = [len(p["inner"]) for p in case["paths"]]
    rep = any(a == b and pa["inner"] != pb["inner"] for a, b, pa, pb in zip(lens, lens[1:], case["paths"], case["paths"][1:]))
    labels = [case["kind"], "drift" if case["drift"] else "no-drift",
              "consecutive-grids-of-equal-length" if rep else "lengths-always-change",
              "spot-control" if case.get("control") else "no-control", case.get("rep", "IDENDITY"),
              "configuration-priced-before" if case.get("priced_before") else "first-pricing"]
    return labels, rep and bool(case["drift"])


SUBCHECKS = [
    SubCheck("textbook-estimators", body, classify,
             rule="1..200 drawn paths (1-3 assets, identity or log representation, incl. constant payoffs) x "
                  "forward/call/put with scalar or vector strikes (payoff dimension 1..4) x notional x discount x 0..3 "
                  "controls (forward, call, put on the same path; given prices or prices equal to the sample means) x "
                  "spot statistics on/off; non-trivial = >= 3 paths with non-constant payoff and (vector payoff or "
                  ">= 1 control)",
             strategy=strat_case, budget={"quick": 4800, "thorough": 30000},
             essential_labels=("payoff-dim=2+", "controls=2", "controls=3", "price=sample-mean")),
    SubCheck("worker-processes-estimators", body, classify,
             rule="the same cases priced with 2 or 3 worker processes (spot statistics on, given control prices): the "
                  "recorded terminal spots are scripted paths and the stored samples, price, error and control-variate "
                  "adjustment are the textbook ones of those spots (discounted once)",
             strategy=strat_mp, budget={"quick": 96, "thorough": 480}, shards={"quick": 16, "thorough": 16}),
    SubCheck("per-path-time-grids", body_grids, classify_grids,
             rule="2..40 scripted paths, each on its own time grid (0..3 interior points, consecutive grids often of equal "
                  "length but different dates), process with x0 and a linear drift, Asian call / spot call / "
                  "down-and-out call: every stored sample is the payoff of its own path (deterministic part on that "
                  "path's times), price and error are their mean and standard error; non-trivial = drift and two "
                  "consecutive grids of equal length with different dates",
             strategy=strat_grids, budget={"quick": 2400, "thorough": 12000}, shards={"quick": 16, "thorough": 16}),
]
