"""C03 - level coupling keeps the coarse path in the previous level's law (telescoping).

Reference model: a deep copy of the grid taken *before* next_level() and a fresh level-(l-1) chain built on
it (rates verified by C01).  The coupling kernel P(fine increment -> coarse value) is read from
probability_to_right_jump and measured black-box through coupling_state driven with scripted uniforms.
"""
from __future__ import annotations

import copy
import itertools
from collections import deque

import numpy as np
from hypothesis import strategies as st

from props.c02 import measure
from vlib.core import SubCheck, Violation
from vlib.grids import GridRejected, _f, build_grid, chain_model_spec, grid_spec
from vlib.models import activity, branch_of, build_copula_model, build_model, quad_hints
from vlib.oracles import nu_integral

PROPERTY_ID = "C03"
ASSUMPTIONS = [
    "per-state rates of the level-l and level-(l-1) chains are those verified by C01",
    "identity sum_k r_f(k) P(k->y) = r_c(y) checked at 1e-9 of the intensity (1-d) / 5e-6 in total variation (copula: accuracy of the library rectangle mass)",
]


class _PM:
    """minimal stand-in for a path manager: next_level deep-copies the last one and sets deterministic_path"""

    def __init__(self, deterministic_path):
        self.deterministic_path = deterministic_path
        self.updated = []

    def update(self, representation):
        self.updated.append(representation)


def _product():
    from props.c04 import _product as p

    return p()


def _product_with_dates(dates):
    """a forward on the spot at one maturity, or on a monthly Asian average (several payoff dates)"""
    if not dates:
        return _product()
    from rpylib.product.payoff import Forward
    from rpylib.product.product import Product
    from rpylib.product.underlying import Asian, Discretisation, Spot

    und = Asian(Discretisation.MONTHLY) if dates["asian"] else Spot()
    return Product(payoff_underlying=und, payoff=Forward(strike=1.0), maturity=float(dates["T"]))


METHODS_1D = ["INVERSION", "BINARYSEARCHTREEADAPTED1D", "ALIAS", "TABLE", "BINARYSEARCHTREE", "HUFFMANNTREE"]


@st.composite
def strat_1d(draw, tier):
    g = draw(grid_spec(max_refine=1))
    g["h_rel"] = float(f"{min(1.0, g['h_rel'] * 2):.4g}")  # levels refine further
    # very small initial steps (cells narrower than 1e-8 after refinement) where the grid size does not depend on h
    model = draw(chain_model_spec())
    # (finite variation only: the intensity of an infinite-variation chain at such a step cannot be simulated)
    if g["type"] in ("uniform-fixed", "geometric", "geometric-bounds") and activity(model)[1] and draw(st.integers(0, 4)) == 0:
        g["h_rel"] = float(f"{g['h_rel'] * draw(st.sampled_from([1e-5, 1e-7, 1e-8])):.4g}")
    return {"model": model, "grid": g, "levels": draw(st.integers(1, 3 if tier == "quick" else 4)),
            "method": draw(st.sampled_from(METHODS_1D)),
            # next_level is also called without path managers (that is how CouplingSDE advances its 1-d driver)
            "no_pm": draw(st.sampled_from([False, False, True])),
            # payoff dates: one maturity (1 year or not) or the monthly dates of an Asian underlying
            "dates": draw(st.sampled_from([{"T": 1.0, "asian": False}, {"T": 0.25, "asian": False}, {"T": 2.5, "asian": False},
                                           {"T": 0.5, "asian": True}, {"T": 1.0, "asian": True}])),
            "w": [draw(st.floats(-3, 3)) for _ in range(2)]}


def body_1d(case):
    from rpylib.distribution.sampling import SamplingMethod
    from rpylib.distribution.samplingfactory import create_q_vector
    from rpylib.process.coupling.couplingmarkovchain import CouplingMarkovChain
    from rpylib.process.markovchain.markovchain import MarkovChainProcess

    np.random.seed(7)
    out = []
    spec, gspec = case["model"], case["grid"]
    model = build_model(spec)
    try:
        grid = build_grid(gspec, model, spec)
    except GridRejected as e:
        return [Violation("REJECTED", str(e))]
    if len(grid.axes[0]) * 2 ** case["levels"] > 2500:
        return [Violation("REJECTED", "finest axis larger than the per-case bound")]
    method = SamplingMethod[case["method"]]
    product = _product_with_dates(case.get("dates"))
    times = np.asarray(product.times_grid(), dtype=float)
    nb = len(times) - 1
    wrow = [float(case["w"][i % 2]) * (1.0 + 0.37 * (i // 2)) for i in range(nb)]
    try:
        cp = CouplingMarkovChain(model=model, method=method, grid=grid)
    except ValueError as e:
        # the table method's documented rejection of a probability vector without residual (every entry a multiple of
        # 1/256: a symmetric law on two reachable states)
        if case["method"] == "TABLE" and "array of 0s" in str(e):
            return [Violation("REJECTED", "table method: vector with no residual")]
        raise
    cp.initialisation(product)
    cp.pre_computation(1, product)
    pms = [_PM(cp.fine_process.deterministic_path)]
    tag = f"C03/1d/{gspec['type']}"
    detail = f"model={spec} grid={gspec} method={case['method']}"
    base_nu = build_model(spec, force_exp=False).levy_triplet.nu
    hints = quad_hints(spec)
    x0 = float(np.log(spec["exp"]["spot"])) if spec["exp"] else 0.0

    for level in range(1, case["levels"] + 1):
        coarse_grid = copy.deepcopy(cp.grid)
        try:
            coarse = MarkovChainProcess(model=model, method=method, grid=coarse_grid)
        except ValueError as e:
            if case["method"] == "TABLE" and "array of 0s" in str(e):
                return out + [Violation("REJECTED", "table method: vector with no residual")]
            raise
        coarse.initialisation(product)
        r_c = np.array(create_q_vector(coarse.model.levy_triplet.nu, coarse_grid), dtype=float)
        lam_c = float(coarse.intensity_of_jumps)
        drift_c = float(coarse.process_drift())
        coef_c = float(coarse.equivalent_diffusion_coefficient)
        o_c = coarse_grid.origin_coordinate.value
        ax_c = np.array(coarse_grid.axes[0], dtype=float)

        try:
            cp.next_level(1, None if case.get("no_pm") else pms, product)
        except ValueError as e:
            if case["method"] == "TABLE" and "array of 0s" in str(e):
                return out + [Violation("REJECTED", "table method: vector with no residual")]
            raise
        g = cp.grid
        fine = cp.fine_process
        ax_f = np.array(g.axes[0], dtype=float)
        o_f = g.origin_coordinate.value
        if o_f != 2 * o_c or len(ax_f) != 2 * len(ax_c) - 1 or not np.array_equal(ax_f[::2], ax_c):
            out.append(Violation(f"{tag}/refinement-does-not-nest-the-coarse-grid", f"level {level}; {detail}"))
            return out
        r_f = np.array(create_q_vector(fine.model.levy_triplet.nu, g), dtype=float)
        sim = cp._path_coupling_simulation
        mass = fine.model.mass
        n_f = len(ax_f)
        p_right = {}
        for k in range(1, n_f, 2):
            p_right[k] = float(sim.probability_to_right_jump(g, mass, k - o_f)) if r_f[k] > 0 else 0.5
        # (a) coupled rates reproduce the coarse rates
        worst = 0.0
        for j in range(len(ax_c)):
            tot = r_f[2 * j]
            if 2 * j - 1 >= 0:
                tot += r_f[2 * j - 1] * p_right[2 * j - 1]
            if 2 * j + 1 < n_f:
                tot += r_f[2 * j + 1] * (1.0 - p_right[2 * j + 1])
            if j == o_c:
                # mass sent to "no coarse jump" = coarse central cell minus fine central cell
                hf, hc = g.h, coarse_grid.h
                ref0 = nu_integral(base_nu, -hc / 2, -hf / 2, 0, hints)[0] + nu_integral(base_nu, hf / 2, hc / 2, 0, hints)[0]
                if abs(tot - ref0) > 1e-7 * ref0 + 1e-10 * lam_c + 1e-11:
                    out.append(Violation(f"{tag}/mass-sent-to-zero",
                                         f"level {level}: {tot!r} vs mass of coarse central cell outside the fine "
                                         f"one {ref0!r}; {detail}"))
                continue
            if abs(tot - r_c[j]) > 1e-9 * lam_c:
                worst = max(worst, abs(tot - r_c[j]))
                out.append(Violation(f"{tag}/coarse-rate-not-reproduced",
                                     f"level {level} coarse state {j} ({ax_c[j]}): sum_k r_f(k)P(k->y) = {tot!r}, "
                                     f"level-{level - 1} rate {r_c[j]!r}; {detail}"))
                break
        # (b) black-box kernel through coupling_state with scripted uniforms
        odd = [k for k in range(1, n_f, 2) if r_f[k] > 0]
        sample_k = odd if len(odd) <= 60 else odd[:: max(1, len(odd) // 60)] + [odd[-1]]
        orig_sample = cp.uniform.sample
        try:
            for k in sample_k:
                inc = k - o_f
                pr = p_right[k]
                for u, expect in ((max(pr - 1e-9, 0.0) if pr > 1e-9 else None, ax_f[k + 1]),
                                  (min(pr + 1e-9, 1.0) if pr < 1 - 1e-9 else None, ax_f[k - 1])):
                    if u is None:
                        continue
                    cp.uniform.sample = lambda size=1, _u=u: np.array([_u])
                    v = float(np.asarray(sim.coupling_state(inc)).ravel()[0])
                    if v != expect:
                        out.append(Violation(f"{tag}/odd-increment-not-moved-to-adjacent-coarse-state",
                                             f"level {level} fine state {k} ({ax_f[k]}), u={u}: coupled value {v}, "
                                             f"expected {expect} (p_right={pr}); {detail}"))
                        raise StopIteration
            for k in range(0, n_f, 2):
                if k == o_f:
                    continue
                v = float(np.asarray(sim.coupling_state(k - o_f)).ravel()[0])
                if v != ax_f[k]:
                    out.append(Violation(f"{tag}/even-increment-not-copied",
                                         f"level {level} fine state {k}: {v} vs {ax_f[k]}; {detail}"))
                    break
            # slice = running sum of the individually coupled values
            incs = [int(odd[0] - o_f), int(2 - o_f if o_f != 2 else 4 - o_f), int(odd[-1] - o_f)]
            cp.uniform.sample = lambda size=1: np.array([0.5])
            sl = np.asarray(sim.coupling_states_for_a_slice(list(incs)), dtype=float)
            ind = np.cumsum([float(np.asarray(sim.coupling_state(i)).ravel()[0]) for i in incs])
            if not np.allclose(sl, ind, rtol=0, atol=1e-15 * max(1.0, np.abs(ind).max())):
                out.append(Violation(f"{tag}/slice-is-not-the-running-sum", f"{sl} vs {ind}; {detail}"))
        except StopIteration:
            pass
        finally:
            cp.uniform.sample = orig_sample
        # (c) coarse diffusion coefficient, same Brownian increments, frozen coarse drift
        if float(cp.equivalent_diffusion_coefficient_coarse) != coef_c:
            out.append(Violation(f"{tag}/coarse-diffusion-coefficient",
                                 f"level {level}: {cp.equivalent_diffusion_coefficient_coarse!r} vs level-{level - 1} "
                                 f"chain's {coef_c!r}; {detail}"))
        ref_fine = MarkovChainProcess(model=model, method=method, grid=copy.deepcopy(cp.grid))
        ref_fine.initialisation(product)
        if float(cp.equivalent_diffusion_coefficient_fine) != float(fine.equivalent_diffusion_coefficient) or \
                not np.isclose(float(cp.equivalent_diffusion_coefficient_fine), float(ref_fine.equivalent_diffusion_coefficient),
                               rtol=1e-12, atol=0.0):
            out.append(Violation(f"{tag}/fine-diffusion-coefficient",
                                 f"level {level}: coupling uses {cp.equivalent_diffusion_coefficient_fine!r}, a fresh chain on "
                                 f"the level grid has {ref_fine.equivalent_diffusion_coefficient!r}; {detail}"))
        tt = np.array([0.0, 0.25, 1.0])
        exp_dp = np.array([x0 + float(fine.process_drift()) * tt, x0 + drift_c * tt])
        dp = exp_dp if case.get("no_pm") else np.asarray(pms[-1].deterministic_path(tt), dtype=float)
        if dp.shape != exp_dp.shape or not np.allclose(dp, exp_dp, rtol=1e-12, atol=1e-12):
            out.append(Violation(f"{tag}/coarse-deterministic-path",
                                 f"level {level}: {dp.tolist()} vs fine/coarse drifts {float(fine.process_drift())!r}, "
                                 f"{drift_c!r}; {detail}"))
        fine._path_simulation._brownian_increments = deque([[list(wrow)]])
        fine._path_simulation._poisson_rv = deque([[0] * nb])
        path = cp.simulate_one_path_with_coupling()
        diff = np.asarray(path.diffusion_path, dtype=float)
        bm = np.concatenate(([0.0], np.cumsum(np.sqrt(np.diff(times)) * np.array(wrow))))
        exp_diff = np.array([float(cp.equivalent_diffusion_coefficient_fine) * bm, coef_c * bm])
        if diff.shape != exp_diff.shape or not np.allclose(diff, exp_diff, rtol=1e-12, atol=1e-15):
            out.append(Violation(f"{tag}/fine-and-coarse-do-not-share-the-brownian-increment",
                                 f"level {level}: {diff.tolist()} vs {exp_diff.tolist()}; {detail}"))
        if len(fine._path_simulation._brownian_increments) != 0:
            out.append(Violation(f"{tag}/brownian-increment-not-consumed", f"level {level}; {detail}"))
        if out:
            break
    return out


def classify_1d(case):
    labels = [branch_of(case["model"]), case["grid"]["type"], f"levels={case['levels']}", case["method"]]
    if case.get("no_pm"):
        labels.append("without-path-managers")
    d = case.get("dates") or {"T": 1.0, "asian": False}
    if case["grid"]["h_rel"] < 1e-3:
        labels.append("tiny-initial-step")
    labels.append("payoff-dates=" + ("monthly-asian" if d["asian"] else ("T=1" if d["T"] == 1.0 else "T!=1")))
    return labels, True


# ------------------------------------------------------------------------------------ copula coupling
@st.composite
def strat_copula(draw, tier):
    from props.c01 import strat_copula as base

    case = draw(base(tier))
    g = case["grid"]
    d = len(case["margins"])
    # small level-0 grids: the fine grid has (2n-1)^d states
    if g["type"] == "uniform-fixed":
        g["n"] = 2 * draw(st.integers(2, 3 if d == 2 else 2))
        g["refine"] = 0
    elif g["type"] == "geometric-bounds":
        g["k"] = draw(st.integers(2, 3 if d == 2 else 2))
    elif g["type"] == "uniform":
        g["h_rel"] = max(g["h_rel"], 2.0)
    case["method"] = draw(st.sampled_from(["INVERSION", "BINARYSEARCHTREEADAPTED"]))
    case["dates"] = draw(st.sampled_from([{"T": 0.25, "asian": False}, {"T": 0.5, "asian": True}, {"T": 2.0, "asian": False}]))
    return case


def _parity(inc):
    odd = [c % 2 for c in inc]
    if not any(odd):
        return "all-even"
    return "all-odd" if all(odd) else "mixed"


def body_copula(case):
    from props.c01 import build_copula_grid
    from rpylib.distribution.sampling import SamplingMethod
    from rpylib.distribution.samplingfactory import create_sampling_inversion_method
    from rpylib.process.coupling.couplinglevycopula import CouplingProcessLevyCopula
    from rpylib.process.markovchain.markovchainlevycopula import MarkovChainLevyCopula

    np.random.seed(7)
    out = []
    d = len(case["margins"])
    model = build_copula_model({"margins": case["margins"], "copula": case["copula"]})
    if not model.jump_of_finite_variation():
        return [Violation("REJECTED", "infinite-variation copula (constructor cost): kernel identity is the same")]
    try:
        grid = build_copula_grid(case, model)
    except GridRejected as e:
        return [Violation("REJECTED", str(e))]
    n0 = int(np.prod([len(a) for a in grid.axes]))
    if n0 > (49 if d == 2 else 125) or any(len(a) < 5 for a in grid.axes):
        return [Violation("REJECTED", f"{n0} level-0 states: outside the per-case bound")]
    method = SamplingMethod[case["method"]]
    product = _product()
    cp = CouplingProcessLevyCopula(levy_copula_model=model, grid=grid, method=method)
    cp.initialisation(product)
    cp.pre_computation(1, product)
    coarse_grid = copy.deepcopy(cp.grid)
    coarse = MarkovChainLevyCopula(levy_copula_model=model, grid=coarse_grid, method=method)
    coarse.initialisation(product)
    lam_c = float(coarse.intensity_of_jumps)
    inv_c = create_sampling_inversion_method(coarse_grid, coarse.model, lam_c, True)
    oc_c = tuple(coarse_grid.origin_coordinate.value)
    drift_c = np.asarray(coarse.process_drift(), dtype=float)
    diff_c = np.asarray(coarse._path_simulation.diffusion_matrix, dtype=float)
    pms = [_PM(cp.fine_process.deterministic_path)]
    cp.next_level(1, pms, product)
    g = cp.grid
    fine = cp.fine_process
    lam_f = float(fine.intensity_of_jumps)
    inv_f = create_sampling_inversion_method(g, fine.model, lam_f, True)
    oc_f = tuple(g.origin_coordinate.value)
    axes_f = [np.array(a, dtype=float) for a in g.axes]
    axes_c = [np.array(a, dtype=float) for a in coarse_grid.axes]
    tag = f"C03/copula/d{d}/{case['copula']['type']}"
    detail = f"case={ {k: case[k] for k in ('margins', 'copula', 'grid')} }"
    if any(o != 2 * c for o, c in zip(oc_f, oc_c)) or any(not np.array_equal(f[::2], c) for f, c in zip(axes_f, axes_c)):
        out.append(Violation(f"{tag}/refinement-does-not-nest-the-coarse-grid", detail))
        return out

    sim = cp._path_coupling_simulation
    coupling_state = getattr(sim, "_CouplingLevyCopulaSimulation__coupling_state")
    mt = fine.model

    def fine_cell(s):
        st_ = g.origin_coordinate + tuple(si - oi for si, oi in zip(s, oc_f))
        v = g[st_]
        return list(g.middle(g.left_point(st_), v)), list(g.middle(v, g.right_point(st_))), v

    states_f = [s for s in itertools.product(*[range(len(a)) for a in axes_f]) if s != oc_f]
    coupled = {}  # coarse value tuple -> rate
    coupled_ref = {}  # same, with the reference kernel on mixed-parity rows
    orig_sample = cp._uniform.sample
    kernel_bad = {}
    try:
        for s in states_f:
            inc = tuple(si - oi for si, oi in zip(s, oc_f))
            rate = float(inv_f.probability_to_jump_to_state(inc)) * lam_f
            if rate <= 1e-9 * lam_f:
                continue  # below the absolute accuracy of the library's rectangle mass
            par = _parity(inc)
            lo, hi, val = fine_cell(s)
            odd_axes = [k for k in range(d) if inc[k] % 2]
            # reference kernel: conditional law of the coarse cell given the fine cell
            ref_k = {}
            cell_mass = float(mt.mass(lo, hi))
            for p in itertools.product([-1, 1], repeat=len(odd_axes)):
                a, b = list(lo), list(hi)
                target = list(val)
                for k, pk in zip(odd_axes, p):
                    if pk < 0:
                        b[k] = val[k]
                        target[k] = float(axes_f[k][s[k] - 1])
                    else:
                        a[k] = val[k]
                        target[k] = float(axes_f[k][s[k] + 1])
                m = float(mt.mass(a, b)) if odd_axes else cell_mass
                ref_k[tuple(target)] = max(m, 0.0)
            # conditional law given the fine cell: normalised by the sum of the pieces (the library's rectangle
            # mass is additive only up to ~1e-6 relative, see C12; the pieces are what the coarse cells receive)
            tot_pieces = sum(ref_k.values())
            if tot_pieces <= 0 or abs(tot_pieces - cell_mass) > 2e-5 * cell_mass + 1e-9 * lam_f:
                out.append(Violation(f"{tag}/fine-cell-mass-is-not-the-sum-of-its-pieces/{par}",
                                     f"fine state {s}: cell mass {cell_mass!r}, pieces {ref_k}; {detail}"))
                raise StopIteration
            ref_k = {t: v / tot_pieces for t, v in ref_k.items()}
            # black-box kernel through the coupling with scripted uniforms
            if odd_axes:
                def f(u, _inc=inc):
                    cp._uniform.sample = lambda size=1, _u=u: np.array([_u])
                    try:
                        return tuple(float(c) for c in np.asarray(coupling_state(_inc), dtype=float).ravel())
                    except (ValueError, TypeError):
                        # the coupling raises when u exceeds the (rounded) sum of the corner probabilities
                        return ("raises",)

                cuts = list(np.cumsum(list(ref_k.values())))
                lengths, seen, nbis = measure(f, [(j + 0.5) / 32 for j in range(32)] + cuts, bisect_tol=1e-11)
                code_k = lengths
                if code_k.get(("raises",), 0.0) > 1e-9:
                    out.append(Violation(f"{tag}/coupling-raises-on-a-set-of-positive-measure/{par}",
                                         f"fine state {s}: measure {code_k[('raises',)]!r}; {detail}"))
                    raise StopIteration
                code_k.pop(("raises",), None)
            else:
                v = tuple(float(c) for c in np.asarray(coupling_state(inc), dtype=float).ravel())
                code_k = {v: 1.0}
            # moved only to adjacent coarse states / even coordinates copied
            for tgt in code_k:
                ok = all((tgt[k] == val[k]) if inc[k] % 2 == 0 else
                         (tgt[k] in (float(axes_f[k][s[k] - 1]), float(axes_f[k][s[k] + 1]))) for k in range(d))
                if not ok:
                    out.append(Violation(f"{tag}/coupled-value-not-adjacent/{par}",
                                         f"fine state {s} value {val} -> {tgt}; {detail}"))
                    raise StopIteration
            dev = max(abs(code_k.get(t, 0.0) - ref_k.get(t, 0.0)) for t in set(code_k) | set(ref_k))
            if dev > 1e-7:
                kernel_bad.setdefault(par, (dev, s, dict(code_k), dict(ref_k)))
            for t, pk in code_k.items():
                coupled[t] = coupled.get(t, 0.0) + rate * pk
            use = ref_k if par == "mixed" else code_k
            for t, pk in use.items():
                coupled_ref[t] = coupled_ref.get(t, 0.0) + rate * pk
    except StopIteration:
        return out
    finally:
        cp._uniform.sample = orig_sample

    for par, (dev, s, ck, rk) in kernel_bad.items():
        out.append(Violation(f"C03/copula/kernel-is-not-the-conditional-law/{par}",
                             f"fine state {s}: coupling kernel {ck} vs mass(fine cell & coarse cell)/mass(fine cell) "
                             f"{rk} (max deviation {dev:.3g}); {detail}"))
    # telescoping identity against the level-(l-1) chain
    states_c = [s for s in itertools.product(*[range(len(a)) for a in axes_c]) if s != oc_c]

    def tv(table):
        tot = 0.0
        for s in states_c:
            y = tuple(float(axes_c[k][s[k]]) for k in range(d))
            r = float(inv_c.probability_to_jump_to_state(tuple(si - oi for si, oi in zip(s, oc_c)))) * lam_c
            tot += abs(table.get(y, 0.0) - r)
        return tot

    dist = tv(coupled)
    if dist > 5e-6 * lam_c:
        dist_ref = tv(coupled_ref)
        if dist_ref <= 5e-6 * lam_c and "mixed" in kernel_bad:
            out.append(Violation("C03/copula/coarse-rates-not-reproduced/because-of-mixed-parity-kernel",
                                 f"sum_x r_f(x)P(x->y) differs from the level-0 rates by {dist:.3g} in total "
                                 f"(intensity {lam_c:.3g}); with the conditional law on mixed-parity states the "
                                 f"difference is {dist_ref:.3g}; {detail}"))
        else:
            out.append(Violation(f"{tag}/coarse-rates-not-reproduced",
                                 f"total deviation {dist:.3g} (with reference kernel on mixed rows {dist_ref:.3g}), "
                                 f"intensity {lam_c:.3g}; {detail}"))
    # coarse diffusion matrix and frozen coarse drift
    if not np.array_equal(np.asarray(cp._diffusion_matrix_2h, dtype=float), diff_c):
        out.append(Violation(f"{tag}/coarse-diffusion-matrix", f"{cp._diffusion_matrix_2h} vs {diff_c}; {detail}"))
    times = np.array([0.0, 0.5, 1.0])
    dp = np.asarray(pms[-1].deterministic_path(times), dtype=float)
    x0 = np.asarray(model.x0_value(), dtype=float)
    exp_dp = np.array([x0 + np.asarray(fine.process_drift(), dtype=float) * times, x0 + drift_c * times])
    if dp.shape != exp_dp.shape or not np.allclose(dp, exp_dp, rtol=1e-12, atol=1e-12):
        out.append(Violation(f"{tag}/coarse-deterministic-path", f"{dp.tolist()} vs {exp_dp.tolist()}; {detail}"))
    # the two components are driven by the same Brownian increments, one pre-drawn row per sample, over the payoff dates
    prod2 = _product_with_dates(case.get("dates") or {"T": 0.5, "asian": True})
    tg = np.asarray(prod2.times_grid(), dtype=float)
    nb = len(tg) - 1
    cp.pre_computation(2, prod2)
    rng = np.random.RandomState(11)
    rows = [rng.normal(size=(d, nb)) for _ in range(2)]
    fine._path_simulation._brownian_increments = deque([r.tolist() for r in rows])
    fine._path_simulation._poisson_rv = deque([[0] * nb, [0] * nb])
    m_h = np.asarray(fine._path_simulation.diffusion_matrix, dtype=float)
    for i, r in enumerate(rows):
        path = cp.simulate_one_path_with_coupling()
        got = np.asarray(path.diffusion_path, dtype=float)
        bm = np.cumsum(np.sqrt(np.diff(tg)) * r, axis=1)
        exp = np.zeros((2, d, nb + 1))
        exp[0][:, 1:] = m_h @ bm
        exp[1][:, 1:] = diff_c @ bm
        alt = np.transpose(exp, (0, 2, 1))
        if not any(got.shape == e.shape and np.allclose(got, e, rtol=1e-12, atol=1e-15) for e in (exp, alt)):
            out.append(Violation(f"{tag}/fine-and-coarse-do-not-share-the-brownian-increments-of-the-sample",
                                 f"sample {i}, dates {tg.tolist()}: diffusion part {got.tolist()} vs {exp.tolist()}; {detail}"))
            break
    if len(fine._path_simulation._brownian_increments) != 0:
        out.append(Violation(f"{tag}/brownian-increments-not-consumed", detail))
    return out


def classify_copula(case):
    d = len(case["margins"])
    return [f"d={d}", case["copula"]["type"], case["grid"]["type"]], True


# ------------------------------------------------------------------------ copula coupling, infinite variation
@st.composite
def strat_copula_iv(draw, tier):
    """two CGMY margins of infinite variation (the diffusion matrix that stands in for the small jumps depends on the
    step) under a Clayton / independent copula, a tiny level-0 grid, two levels; the hierarchy is built up front or a
    level-l path is simulated before the next level is added"""
    def margin():
        return {"family": "cgmy", "params": {"c": draw(_f(0.02, 0.5)), "g": draw(_f(4.0, 30.0)), "m": draw(_f(4.0, 30.0)),
                                             "y": draw(st.sampled_from([1.1, 1.3, 1.5, 1.7]))},
                "exp": {"spot": 100.0, "r": 0.02, "d": 0.0}}
    cop = draw(st.sampled_from([{"type": "clayton", "theta": 0.7, "eta": 0.3}, {"type": "clayton", "theta": 3.0, "eta": 0.8},
                                {"type": "independent"}]))
    return {"margins": [margin(), margin()], "copula": cop, "n": 4,
            "h_rel": draw(_f(0.3, 1.5)), "simulate_between": draw(st.booleans()), "levels": draw(st.sampled_from([1, 1, 2])),
            "method": draw(st.sampled_from(["INVERSION", "BINARYSEARCHTREEADAPTED"]))}


def body_copula_iv(case):
    from rpylib.distribution.sampling import SamplingMethod
    from rpylib.grid.spatial import CTMCUniformGrid
    from rpylib.process.coupling.couplinglevycopula import CouplingProcessLevyCopula
    from rpylib.process.markovchain.markovchainlevycopula import MarkovChainLevyCopula
    from vlib.grids import model_scale

    np.random.seed(7)
    out = []
    d = 2
    model = build_copula_model({"margins": case["margins"], "copula": case["copula"]})
    h = float(f"{case['h_rel'] * min(model_scale(m) for m in case['margins']):.5g}")
    grid = CTMCUniformGrid.create_from_fixed_nb_of_points(h=h, nb_of_points=case["n"], dimension=d)
    method = SamplingMethod[case["method"]]
    product = _product_with_dates({"T": 0.5, "asian": True})
    tg = np.asarray(product.times_grid(), dtype=float)
    nb = len(tg) - 1
    tag = f"C03/copula-infinite-variation/{case['copula']['type']}/{'path-between-levels' if case['simulate_between'] else 'levels-built-up-front'}"
    detail = f"case={case}"
    cp = CouplingProcessLevyCopula(levy_copula_model=model, grid=grid, method=method)
    cp.initialisation(product)
    cp.pre_computation(1, product)
    pms = [_PM(cp.fine_process.deterministic_path)]
    for level in range(1, int(case.get("levels", 2)) + 1):
        # the level-(l-1) chain built independently, on a copy of the grid as it is before the refinement
        ref_c = MarkovChainLevyCopula(levy_copula_model=model, grid=copy.deepcopy(cp.grid), method=method)
        ref_c.initialisation(product)
        diff_c = np.asarray(ref_c._path_simulation.diffusion_matrix, dtype=float)
        if case["simulate_between"]:
            cp.pre_computation(1, product)
            cp.simulate_one_path() if level == 1 else cp.simulate_one_path_with_coupling()
        cp.next_level(2, pms, product)
        ref_f = MarkovChainLevyCopula(levy_copula_model=model, grid=copy.deepcopy(cp.grid), method=method)
        ref_f.initialisation(product)
        diff_f = np.asarray(ref_f._path_simulation.diffusion_matrix, dtype=float)
        if not np.all(np.isfinite(diff_c)) or not np.all(np.isfinite(diff_f)):
            return out + [Violation("INCONCLUSIVE", f"reference diffusion matrix not finite; {detail}")]
        if np.allclose(diff_c, diff_f, rtol=1e-6, atol=0):
            return out + [Violation("REJECTED", "the diffusion matrix does not move with the step here")]
        tol = 1e-9 * float(np.abs(diff_c).max())
        got_c = np.asarray(cp._diffusion_matrix_2h, dtype=float)
        got_f = np.asarray(cp._diffusion_matrix_h, dtype=float)
        if got_c.shape != diff_c.shape or not np.allclose(got_c, diff_c, rtol=1e-9, atol=tol):
            out.append(Violation(f"{tag}/coarse-diffusion-matrix-is-not-that-of-the-previous-level",
                                 f"level {level}: coupling holds {got_c.tolist()}, a chain built on the level-{level - 1} "
                                 f"grid has {diff_c.tolist()} (level-{level} chain: {diff_f.tolist()}); {detail}"))
            return out
        if got_f.shape != diff_f.shape or not np.allclose(got_f, diff_f, rtol=1e-9, atol=tol):
            out.append(Violation(f"{tag}/fine-diffusion-matrix-is-not-that-of-the-level",
                                 f"level {level}: {got_f.tolist()} vs {diff_f.tolist()}; {detail}"))
            return out
        # one coupled sample without jumps: both components driven by the pre-drawn Brownian row of the sample
        fine = cp.fine_process
        row = np.random.RandomState(11 + level).normal(size=(d, nb))
        fine._path_simulation._brownian_increments = deque([row.tolist()])
        fine._path_simulation._poisson_rv = deque([[0] * nb])
        path = cp.simulate_one_path_with_coupling()
        got = np.asarray(path.diffusion_path, dtype=float)
        bm = np.cumsum(np.sqrt(np.diff(tg)) * row, axis=1)
        exp = np.zeros((2, d, nb + 1))
        exp[0][:, 1:] = diff_f @ bm
        exp[1][:, 1:] = diff_c @ bm
        alt = np.transpose(exp, (0, 2, 1))
        if not any(got.shape == e.shape and np.allclose(got, e, rtol=1e-9, atol=1e-15) for e in (exp, alt)):
            out.append(Violation(f"{tag}/diffusion-parts-are-not-the-two-levels-matrices-times-the-shared-increments",
                                 f"level {level}: {got.tolist()} vs {exp.tolist()}; {detail}"))
            return out
    return out


def classify_copula_iv(case):
    return [case["copula"]["type"], "path-between-levels" if case["simulate_between"] else "levels-built-up-front",
            case["method"]], True


# ------------------------------------------------------------------------------------ SDE coupling drifts
@st.composite
def strat_sde(draw, tier):
    g = draw(grid_spec(max_refine=0, types=["uniform", "uniform-fixed", "geometric", "geometric-bounds"]))
    return {"model": draw(chain_model_spec(exp=False)), "grid": g, "levels": draw(st.integers(1, 2)),
            "x0": draw(st.floats(0.5, 2.0)), "a": draw(st.floats(-2.0, 2.0)), "reinit": draw(st.booleans())}


def body_sde(case):
    from rpylib.distribution.sampling import SamplingMethod
    from rpylib.model.levydrivensde.levydrivensde import LevyDrivenSDEModel
    from rpylib.process.coupling.couplingsde import CouplingSDE
    from rpylib.process.markovchain.markovchain import MarkovChainProcess

    np.random.seed(7)
    out = []
    spec, gspec = case["model"], case["grid"]
    driver = build_model(spec)
    try:
        grid = build_grid(gspec, driver, spec)
    except GridRejected as e:
        return [Violation("REJECTED", str(e))]
    if len(grid.axes[0]) > 300:
        return [Violation("REJECTED", "axis larger than the per-case bound")]
    from rpylib.model.levydrivensde.levydrivensde import Constant

    sde = LevyDrivenSDEModel(driver=driver, a=Constant(m=1, d=1, constant=case["a"]), x0=np.array([case["x0"]]))
    method = SamplingMethod.BINARYSEARCHTREEADAPTED1D
    product = _product()
    cs = CouplingSDE(model=sde, grid=grid, method=method)
    cs.initialisation(product)
    cs.pre_computation(1, product)
    pms = [_PM(cs.fine_process.deterministic_path)]
    detail = f"model={spec} grid={gspec}"
    for level in range(1, case["levels"] + 1):
        coarse_grid = copy.deepcopy(cs.driver_coupling_process.grid)
        coarse = MarkovChainProcess(model=driver, method=method, grid=coarse_grid)
        coarse.initialisation(product)
        cs.next_level(1, pms, product)
        if case.get("reinit"):
            # the levelled coupling is initialised again (another product priced on the same refined object): what it
            # carries from the level below must survive that
            cs.initialisation(product)
            cs.pre_computation(1, product)
        fine = MarkovChainProcess(model=driver, method=method, grid=copy.deepcopy(cs.driver_coupling_process.grid))
        fine.initialisation(product)
        if not np.allclose(np.asarray(cs.mc_drift_2h, dtype=float), float(coarse.process_drift()), rtol=1e-12, atol=1e-14):
            out.append(Violation("C03/sde/coarse-driver-drift",
                                 f"level {level}: mc_drift_2h={cs.mc_drift_2h!r}, level-{level - 1} chain drift "
                                 f"{coarse.process_drift()!r}; {detail}"))
        if not np.allclose(np.asarray(cs.mc_drift_h, dtype=float), float(fine.process_drift()), rtol=1e-12, atol=1e-14):
            out.append(Violation("C03/sde/fine-driver-drift",
                                 f"level {level}: mc_drift_h={cs.mc_drift_h!r}, level-{level} chain drift "
                                 f"{fine.process_drift()!r}; {detail}"))
        drv = cs.driver_coupling_process
        for name, got, ref in (("fine", drv.equivalent_diffusion_coefficient_fine, fine.equivalent_diffusion_coefficient),
                               ("coarse", drv.equivalent_diffusion_coefficient_coarse, coarse.equivalent_diffusion_coefficient)):
            if not np.isclose(float(got), float(ref), rtol=1e-12, atol=0.0):
                out.append(Violation(f"C03/sde/{name}-driver-diffusion-coefficient",
                                     f"level {level}: coupling uses {got!r}, a fresh chain on that level's grid has {ref!r}; "
                                     f"{detail}"))
        h = cs.driver_coupling_process.grid.h
        eps = h ** driver.blumenthal_getoor_index()
        if not np.isclose(cs.epsilon, eps, rtol=1e-12):
            out.append(Violation("C03/sde/epsilon", f"level {level}: epsilon {cs.epsilon} vs h^beta {eps}; {detail}"))
        dp = np.asarray(pms[-1].deterministic_path(np.array([0.0, 1.0])), dtype=float)
        if not np.allclose(dp.ravel(), case["x0"]):
            out.append(Violation("C03/sde/deterministic-path", f"{dp.tolist()}; {detail}"))
    return out


def classify_sde(case):
    return [branch_of(case["model"]), case["grid"]["type"], f"levels={case['levels']}"] + \
        (["re-initialised-after-refinement"] if case.get("reinit") else []), True


SUBCHECKS = [
    SubCheck("coupling-1d", body_1d, classify_1d,
             rule="model x grid x sampling method x levels 1..3(4): at every level the coupled rates "
                  "sum_k r_f(k)P(k->y) vs a fresh level-(l-1) chain on a pre-refinement copy of the grid, mass sent "
                  "to zero vs quadrature, black-box kernel via coupling_state with scripted uniforms, even "
                  "increments copied, coarse coefficient/drift frozen, shared Brownian increment (scripted deque)",
             strategy=strat_1d, budget={"quick": 720, "thorough": 2400}, shards={"quick": 16, "thorough": 16}),
    SubCheck("coupling-copula", body_copula, classify_copula,
             rule="copula chains d=2,3 (finite variation, small level-0 grids) at level 1: black-box kernel of "
                  "every fine state (scripted uniforms, measured by bisection) vs the conditional law of the "
                  "coarse cell given the fine cell, telescoping identity vs a fresh level-0 chain, coarse "
                  "diffusion matrix and drift; rows labelled by parity (all-even / all-odd / mixed)",
             strategy=strat_copula, budget={"quick": 48, "thorough": 640}, shards={"quick": 16, "thorough": 16}),
    SubCheck("coupling-copula-infinite-variation", body_copula_iv, classify_copula_iv,
             rule="2-d copula couplings with infinite-variation margins (step-dependent diffusion matrix), levels 1..2, "
                  "hierarchy built up front or with a path simulated between the levels: coarse / fine diffusion matrix "
                  "vs chains built independently on copies of the level grids; one coupled sample without jumps vs the "
                  "two matrices times the scripted Brownian row",
             strategy=strat_copula_iv, budget={"quick": 32, "thorough": 64}, shards={"quick": 16, "thorough": 16},
             essential_labels=("levels-built-up-front", "path-between-levels")),
    SubCheck("coupling-sde-drifts", body_sde, classify_sde,
             rule="CouplingSDE over a 1-d driver, levels 1..2: mc_drift_2h = drift of a fresh level-(l-1) chain, "
                  "mc_drift_h = level-l chain drift, epsilon = h^beta, deterministic path = x0 for both components",
             strategy=strat_sde, budget={"quick": 960, "thorough": 3200}, shards={"quick": 16, "thorough": 16}),
]
