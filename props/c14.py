"""C14 - index/state enumerations are bijections: every admissible state exactly once.

Oracles: round trips (projection o pairing = id, pairing o projection = id), multiset equality with
itertools.product, a naive divisor-sum, and a set-equality reference enumeration of in-grid states.
"""
from __future__ import annotations

import itertools
import math

import numpy as np
from hypothesis import strategies as st

from vlib.core import SubCheck, Violation

PROPERTY_ID = "C14"
ASSUMPTIONS = [
    "coordinate magnitudes are bounded by 1e8 per axis, the size limit CTMCUniformGrid itself enforces",
    "hyperbolic pairing explored only up to products (x+1)(y+1) <= 2e6 (sympy.factorint cost)",
]


def _pairings():
    from rpylib.distribution import pairing as P

    return {
        "cantor": P.Cantor(),
        "rs": P.RosenbergStrong(),
        "szudzik": P.Szudzik(),
        "pepis": P.PepisKalmar(),
        "hyperbolic": P.HyperbolicPairing(),
    }


def _is_nat_tuple(t, dim):
    return (isinstance(t, tuple) and len(t) == dim
            and all(isinstance(c, (int, np.integer)) and not isinstance(c, bool) and c >= 0 for c in t))


def _check_z(name, pg, dim, z, out, tag):
    """projection(z) lands in N^dim and pairing(projection(z)) == z."""
    try:
        x = pg.projection(z, dim) if dim != 2 else pg.projection(z)
    except NotImplementedError:
        return None
    except Exception as e:  # noqa: BLE001
        out.append(Violation(f"C14/{name}/d{dim}/{tag}/projection-raises/{type(e).__name__}",
                             f"projection({z}) raised {e!r}"))
        return None
    x = tuple(x)
    if not _is_nat_tuple(x, dim):
        out.append(Violation(f"C14/{name}/d{dim}/{tag}/projection-not-in-N^d",
                             f"projection({z}) = {x!r}"))
        return None
    x = tuple(int(c) for c in x)
    try:
        z2 = pg.pairing(x)
    except Exception as e:  # noqa: BLE001
        out.append(Violation(f"C14/{name}/d{dim}/{tag}/pairing-raises/{type(e).__name__}",
                             f"pairing({x}) raised {e!r}"))
        return x
    if z2 != z:
        out.append(Violation(f"C14/{name}/d{dim}/{tag}/pairing-of-projection",
                             f"z={z} projection={x} pairing(projection)={z2}"))
    return x


def _check_x(name, pg, dim, x, out, tag):
    """projection(pairing(x)) == x and pairing(x) is a natural number."""
    try:
        z = pg.pairing(tuple(x))
    except Exception as e:  # noqa: BLE001
        out.append(Violation(f"C14/{name}/d{dim}/{tag}/pairing-raises/{type(e).__name__}",
                             f"pairing({x}) raised {e!r}"))
        return None
    if not (isinstance(z, (int, np.integer)) and z >= 0):
        out.append(Violation(f"C14/{name}/d{dim}/{tag}/pairing-not-natural", f"pairing({x})={z!r}"))
        return None
    z = int(z)
    try:
        x2 = pg.projection(z, dim) if dim != 2 else pg.projection(z)
    except NotImplementedError:
        return z
    except Exception as e:  # noqa: BLE001
        out.append(Violation(f"C14/{name}/d{dim}/{tag}/projection-raises/{type(e).__name__}",
                             f"x={x} z={z}: projection raised {e!r}"))
        return z
    if tuple(int(c) for c in x2) != tuple(x):
        out.append(Violation(f"C14/{name}/d{dim}/{tag}/projection-of-pairing",
                             f"x={x} z={z} projection(z)={tuple(x2)}"))
    return z


# ------------------------------------------------------------------ 1. exhaustive initial segments
SEGMENTS = {  # pairing -> (dim, z upper bound quick, thorough)
    ("cantor", 2): (20000, 200000),
    ("rs", 2): (20000, 200000),
    ("rs", 3): (20000, 200000),
    ("szudzik", 2): (20000, 200000),
    ("szudzik", 3): (20000, 200000),
    ("pepis", 2): (20000, 200000),
    ("pepis", 3): (4000, 20000),
    ("hyperbolic", 2): (6000, 30000),
}


def enum_segments(tier):
    cases = []
    for (name, dim), (q, t) in SEGMENTS.items():
        hi = q if tier == "quick" else t
        step = max(500, hi // 16)
        for lo in range(0, hi, step):
            cases.append({"kind": "z", "pairing": name, "dim": dim, "lo": lo, "hi": min(hi, lo + step)})
    side = 150 if tier == "quick" else 400
    for name in ("cantor", "rs", "szudzik", "pepis"):
        s = side if name != "pepis" else 40
        for lo in range(0, s, 25):
            cases.append({"kind": "x", "pairing": name, "dim": 2, "lo": lo, "hi": min(s, lo + 25), "side": s})
    for name in ("rs", "szudzik"):
        s = 24 if tier == "quick" else 48
        for lo in range(0, s, 4):
            cases.append({"kind": "x", "pairing": name, "dim": 3, "lo": lo, "hi": min(s, lo + 4), "side": s})
    cases.append({"kind": "x", "pairing": "hyperbolic", "dim": 2, "lo": 0, "hi": 30, "side": 30})
    return cases


def body_segment(case):
    out = []
    name, dim = case["pairing"], case["dim"]
    pg = _pairings()[name]
    if case["kind"] == "z":
        seen = {}
        for z in range(case["lo"], case["hi"]):
            x = _check_z(name, pg, dim, z, out, "segment")
            if x is not None:
                if x in seen:
                    out.append(Violation(f"C14/{name}/d{dim}/segment/projection-not-injective",
                                         f"z={seen[x]} and z={z} both project to {x}"))
                seen[x] = z
            if len(out) > 5:
                break
    else:
        rng = [range(case["lo"], case["hi"])] + [range(case["side"])] * (dim - 1)
        seen = {}
        for x in itertools.product(*rng):
            z = _check_x(name, pg, dim, x, out, "segment")
            if z is not None:
                if z in seen:
                    out.append(Violation(f"C14/{name}/d{dim}/segment/pairing-not-injective",
                                         f"{seen[z]} and {x} both pair to {z}"))
                seen[z] = x
            if len(out) > 5:
                break
    return out


def classify_segment(case):
    return [f"{case['pairing']}/d{case['dim']}/{case['kind']}"], True


# ------------------------------------------------------------------ 2. constructed large values
MAXC = 10**8


@st.composite
def strat_large(draw, tier):
    name = draw(st.sampled_from(["cantor", "rs", "rs", "szudzik", "szudzik", "pepis", "hyperbolic"]))
    # (the n-d pairings are compositions of the 2-d one: dimensions 4 and 5 as well, for the index -> point direction)
    dim = 2 if name in ("cantor", "hyperbolic") else draw(st.sampled_from([2, 3, 2, 3, 4, 5]))
    kind = draw(st.sampled_from(["z-near-power", "z-free", "x-free", "x-edge"]))
    if dim >= 4:
        kind = draw(st.sampled_from(["z-near-power", "z-free"]))
    if name == "hyperbolic" and draw(st.integers(0, 3)) == 0:
        # shells whose number (x+1)(y+1) is a product of two primes above 2^15 (beyond the trial-division bound of the
        # factorisation the pairing relies on); the divisor sum costs sqrt(n) ~ 4e4 operations there
        ps = [32771, 32779, 32783, 32789, 32797, 32801, 32803, 32831, 32833, 32839, 32843, 32869, 32983, 34499, 65537]
        case = {"pairing": name, "dim": 2, "kind": "x-primes",
                "x": [draw(st.sampled_from(ps)) - 1, draw(st.sampled_from(ps)) - 1]}
        return case
    case = {"pairing": name, "dim": dim, "kind": kind}
    # coordinates in N are images of signed coordinates through mapping_to_z: up to 2*MAXC
    cmax = 2 * MAXC
    if name == "hyperbolic":
        cmax = 1400  # (x+1)(y+1) <= 2e6
    if kind.startswith("z"):
        if name == "pepis":
            zmax = 2**60
        elif name == "hyperbolic":
            zmax = 2 * 10**6
        else:
            zmax = cmax**dim
        if kind == "z-near-power":
            base_kind = draw(st.sampled_from(["power", "triangular", "pow2"]))
            delta = draw(st.integers(-3, 3))
            if base_kind == "power":
                m = draw(st.integers(1, max(2, int(round(zmax ** (1.0 / dim))))))
                z = m**dim + delta
            elif base_kind == "triangular":
                m = draw(st.integers(1, max(2, math.isqrt(2 * zmax))))
                z = m * (m + 1) // 2 + delta
            else:
                e = draw(st.integers(1, max(2, zmax.bit_length() - 1)))
                z = 2**e + delta
            case["base"] = base_kind
            case["z"] = max(0, min(z, zmax))
        else:
            bits = draw(st.integers(1, zmax.bit_length()))
            case["z"] = min(draw(st.integers(0, 2**bits)), zmax)
    else:
        if kind == "x-edge":
            m = draw(st.integers(0, cmax))
            xs = [max(0, min(cmax, m + draw(st.integers(-2, 2)))) if draw(st.booleans())
                  else draw(st.sampled_from([0, 1, m])) for _ in range(dim)]
        else:
            xs = []
            for _ in range(dim):
                bits = draw(st.integers(1, cmax.bit_length()))
                xs.append(min(draw(st.integers(0, 2**bits)), cmax))
        if name == "pepis":
            xs = [min(xs[0], cmax)] + [min(c, 300) for c in xs[1:]]
            if dim == 3:  # composition: pairing2d(pairing2d(x0,x1),x2); keep x1 small as well
                xs[1] = min(xs[1], 60)
        case["x"] = xs
    return case


class _Static2d:
    """The public static 2-d entry points (pairing2d / projection2d) seen as a pairing object."""

    def __init__(self, pg):
        self.pg = pg

    def pairing(self, x):
        return self.pg.pairing2d(*x)

    def projection(self, z, dim=2):
        return self.pg.projection2d(z)


def body_large(case):
    out = []
    name, dim = case["pairing"], case["dim"]
    pg = _pairings()[name]
    if dim == 2:
        st2 = _Static2d(pg)
        if "z" in case:
            _check_z(name, st2, 2, int(case["z"]), out, "large-static2d")
        else:
            _check_x(name, st2, 2, tuple(int(c) for c in case["x"]), out, "large-static2d")
    if "z" in case:
        _check_z(name, pg, dim, int(case["z"]), out, "large")
    else:
        _check_x(name, pg, dim, tuple(int(c) for c in case["x"]), out, "large")
    return out


def classify_large(case):
    labels = [f"{case['pairing']}/d{case['dim']}/{case['kind']}"]
    big = (case.get("z", 0) > 2**53) or any(c > 2**26 for c in case.get("x", []))
    if big:
        labels.append("beyond-float-precision")
    nt = case["kind"] in ("z-near-power", "x-edge", "x-primes") or big
    return labels, nt


# ------------------------------------------------------------------ 3. N <-> Z folding, Z^d pairings
@st.composite
def strat_zd(draw, tier):
    name = draw(st.sampled_from(["rs", "szudzik", "cantor", "pepis"]))
    dim = 2 if name == "cantor" else draw(st.sampled_from([2, 3]))
    omit = draw(st.booleans())
    kind = draw(st.sampled_from(["n", "x"]))
    case = {"pairing": name, "dim": dim, "omit_zero": omit, "kind": kind}
    small = name == "pepis"
    if kind == "n":
        hi = 10**5 if small else 10**9
        bits = draw(st.integers(1, hi.bit_length()))
        case["n"] = min(draw(st.integers(0, 2**bits)), hi)
    else:
        lim = 30 if small else 10**4
        xs = [draw(st.integers(-lim, lim)) for _ in range(dim)]
        if omit and all(c == 0 for c in xs):
            xs[draw(st.integers(0, dim - 1))] = draw(st.sampled_from([-1, 1]))
        case["x"] = xs
    return case


def body_zd(case):
    from rpylib.distribution.pairing import PairingToZd, mapping_to_z, projection_to_z

    out = []
    name, dim = case["pairing"], case["dim"]
    tag = f"C14/to-zd/{name}/d{dim}/omit={int(case['omit_zero'])}"
    pz = PairingToZd(_pairings()[name], dimension=dim, omit_zero=case["omit_zero"])
    if case["kind"] == "n":
        n = int(case["n"])
        x = tuple(pz.project(n))
        if len(x) != dim or not all(isinstance(c, (int, np.integer)) for c in x):
            out.append(Violation(f"{tag}/project-shape", f"project({n})={x!r}"))
            return out
        if case["omit_zero"] and all(c == 0 for c in x):
            out.append(Violation(f"{tag}/zero-not-omitted", f"project({n})={x}"))
        n2 = pz.pair(tuple(int(c) for c in x))
        if n2 != n:
            out.append(Violation(f"{tag}/pair-of-project", f"n={n} project={x} pair={n2}"))
        # folding maps themselves
        k = n % 100003
        if mapping_to_z(projection_to_z(k)) != k:
            out.append(Violation("C14/folding/mapping-of-projection", f"k={k}"))
    else:
        x = tuple(int(c) for c in case["x"])
        n = pz.pair(x)
        if not (isinstance(n, (int, np.integer)) and n >= 0):
            out.append(Violation(f"{tag}/pair-not-natural", f"pair({x})={n!r}"))
            return out
        x2 = tuple(int(c) for c in pz.project(int(n)))
        if x2 != x:
            out.append(Violation(f"{tag}/project-of-pair", f"x={x} pair={n} project={x2}"))
        for c in x:
            if projection_to_z(mapping_to_z(c)) != c:
                out.append(Violation("C14/folding/projection-of-mapping", f"c={c}"))
    return out


def classify_zd(case):
    labels = [f"{case['pairing']}/d{case['dim']}/omit={int(case['omit_zero'])}/{case['kind']}"]
    nt = case["dim"] == 3 or not case["omit_zero"] or (
        case["kind"] == "x" and any(c < 0 for c in case["x"]))
    return labels, nt


# ------------------------------------------------------------------ 4. PairingToZ1d on asymmetric intervals
def enum_z1d(tier):
    lim = 12 if tier == "quick" else 40
    cases = []
    for L in range(1, lim + 1):
        for R in range(1, lim + 1):
            for omit in (True, False):
                for order in ("sequential", "reversed", "ends-first", "interleaved"):
                    cases.append({"L": L, "R": R, "omit_zero": omit, "order": order})
    return cases


@st.composite
def strat_z1d(draw, tier):
    L = draw(st.integers(1, 400))
    R = draw(st.one_of(st.integers(1, 400), st.integers(max(1, L - 2), L + 2)))
    omit = draw(st.booleans())
    n = L + R + (0 if omit else 1)
    perm = draw(st.permutations(list(range(min(n, 60)))))
    # the drawn order covers a prefix permutation, then the rest sequentially, with repeats
    repeats = draw(st.lists(st.integers(0, n - 1), max_size=8))
    return {"L": L, "R": R, "omit_zero": omit, "order": "drawn", "perm": list(perm), "repeats": repeats}


def _z1d_order(case):
    L, R, omit = case["L"], case["R"], case["omit_zero"]
    n = L + R + (0 if omit else 1)
    seq = list(range(n))
    o = case["order"]
    if o == "sequential":
        return seq
    if o == "reversed":
        return seq[::-1]
    if o == "ends-first":
        return [n - 1, 0] + seq
    if o == "interleaved":
        return [v for pair in zip(seq[: n // 2], seq[::-1]) for v in pair] + seq
    perm = [p for p in case["perm"] if p < n]
    return perm + case["repeats"] + seq


def body_z1d(case):
    from rpylib.distribution.pairing import PairingToZ1d

    out = []
    L, R, omit = case["L"], case["R"], case["omit_zero"]
    pz = PairingToZ1d((-L, R), omit_zero=omit)
    n = L + R + (0 if omit else 1)
    admissible = set(range(-L, R + 1)) - ({0} if omit else set())
    got = {}
    shape = "symmetric" if L == R else "asymmetric"
    tag = f"C14/z1d/{shape}/{'sequential' if case['order'] == 'sequential' else 'out-of-order'}"
    for idx in _z1d_order(case):
        s = pz.project(idx)
        if idx in got and got[idx] != s:
            out.append(Violation(f"{tag}/project-not-a-function",
                                 f"[-{L},{R}] project({idx}) gave {got[idx]} then {s}"))
        got[idx] = s
    for idx, s in sorted(got.items()):
        if s not in admissible:
            out.append(Violation(f"{tag}/state-not-admissible", f"[-{L},{R}] omit={omit} project({idx})={s}"))
            break
        if pz.pair(s) != idx:
            out.append(Violation(f"{tag}/pair-of-project",
                                 f"[-{L},{R}] omit={omit} project({idx})={s} pair({s})={pz.pair(s)}"))
            break
    if len(got) == n and set(got.values()) != admissible and not out:
        out.append(Violation(f"{tag}/not-onto", f"[-{L},{R}] missing {sorted(admissible - set(got.values()))[:5]}"))
    # state -> index -> state on a fresh object (pair is stateless)
    pz2 = PairingToZ1d((-L, R), omit_zero=omit)
    idxs = sorted(pz2.pair(s) for s in admissible)
    if idxs != list(range(n)):
        out.append(Violation(f"C14/z1d/{shape}/pair-not-bijective-onto-0..n-1",
                             f"[-{L},{R}] omit={omit} indices={idxs[:8]}..."))
    return out


def classify_z1d(case):
    L, R = case["L"], case["R"]
    labels = ["symmetric" if L == R else "asymmetric", f"order={case['order']}",
              f"omit={int(case['omit_zero'])}"]
    return labels, (L != R or case["order"] != "sequential")


# ------------------------------------------------------------------ 5. lazy cartesian product
def enum_lazy(tier):
    lim = 400 if tier == "quick" else 5000
    cases = []
    for d in (1, 2, 3, 4):
        for sizes in itertools.product(range(1, 18 if d < 4 else 8), repeat=d):
            if math.prod(sizes) <= lim:
                cases.append({"sizes": list(sizes)})
    if tier == "quick":  # thin the quick tier deterministically, keeping all small tuples
        cases = [c for i, c in enumerate(cases) if math.prod(c["sizes"]) <= 60 or i % 5 == 0]
    return cases


def body_lazy(case):
    from rpylib.tools.generic import lazy_indices_product

    sizes = list(case["sizes"])
    got = list(lazy_indices_product(list(sizes)))
    ref = list(itertools.product(*[range(s) for s in sizes]))
    shape = "equal-sizes" if len(set(sizes)) == 1 else "unequal-sizes"
    out = []
    if sorted(got) != sorted(ref):
        from collections import Counter

        c = Counter(got)
        dup = [t for t, k in c.items() if k > 1][:3]
        miss = [t for t in ref if t not in c][:3]
        out.append(Violation(f"C14/lazy-product/{shape}/not-a-permutation-of-product",
                             f"sizes={sizes} n={len(got)} expected={len(ref)} duplicated={dup} missing={miss}"))
    return out


def classify_lazy(case):
    s = case["sizes"]
    eq = len(set(s)) == 1
    return [f"d={len(s)}", "equal-sizes" if eq else "unequal-sizes"], (not eq or len(s) >= 3)


# ------------------------------------------------------------------ 6. divisor summatory function
def _a_naive(n):
    return sum(n // k for k in range(1, n + 1))


def _a_int(n):
    r = math.isqrt(n)
    return 2 * sum(n // k for k in range(1, r + 1)) - r * r


@st.composite
def strat_an(draw, tier):
    kind = draw(st.sampled_from(["small-block", "large-n", "inverse"]))
    if kind == "small-block":
        return {"kind": kind, "lo": draw(st.integers(0, 4900))}
    if kind == "large-n":
        base = draw(st.sampled_from(["free", "square"]))
        if base == "square":
            m = draw(st.one_of(st.integers(1, 10**5), st.integers(5 * 10**5, 3 * 10**6)))
            n = m * m + draw(st.integers(-2, 2))
        else:
            n = draw(st.integers(1, 10**10))
        return {"kind": kind, "n": max(1, n)}
    bits = draw(st.integers(1, 40))
    return {"kind": kind, "z": draw(st.integers(0, 2**bits))}


def body_an(case):
    from rpylib.numerical.numbers import a_n, upper_bound_a_n

    out = []
    if case["kind"] == "small-block":
        for n in range(case["lo"], case["lo"] + 100):
            if n >= 1 and a_n(n) != _a_naive(n):
                out.append(Violation("C14/a_n/differs-from-divisor-sum", f"n={n} a_n={a_n(n)} ref={_a_naive(n)}"))
                break
    elif case["kind"] == "large-n":
        n = case["n"]
        if a_n(n) != _a_int(n):
            out.append(Violation("C14/a_n/differs-from-integer-formula", f"n={n} a_n={a_n(n)} ref={_a_int(n)}"))
    else:
        z = case["z"]
        n = upper_bound_a_n(z)
        lo = _a_int(n - 1) if n - 1 >= 1 else 0
        if not (isinstance(n, (int, np.integer)) and n >= 1 and lo <= z < _a_int(n)):
            out.append(Violation("C14/a_n/upper-bound-not-inverse",
                                 f"z={z} n={n} a(n-1)={lo} a(n)={_a_int(n)}"))
    return out


def enum_an_huge(tier):
    # shells next to perfect squares beyond the precision of a float square root (coordinates of a 2-d grid with
    # more than 6.7e7 points per axis; the grids accept 1e8): n = m^2 - 1, m^2, m^2 + 1
    ms = [67108865] if tier == "quick" else [67108865, 80000003, 94906266, 100000000]
    return [{"m": m, "delta": dl} for m in ms for dl in ((-1,) if tier == "quick" else (-1, 0, 1))]


def body_an_huge(case):
    from rpylib.numerical.numbers import a_n

    n = case["m"] ** 2 + case["delta"]
    r = math.isqrt(n)
    tot = 0
    for lo in range(1, r + 1, 5_000_000):  # exact integer arithmetic (n // k < 2^63, partial sums as python ints)
        k = np.arange(lo, min(r, lo + 4_999_999) + 1, dtype=np.int64)
        tot += int((n // k).sum())
    ref = 2 * tot - r * r
    got = a_n(n)
    if got != ref:
        return [Violation("C14/a_n/differs-from-integer-formula/beyond-float-precision",
                          f"n = {case['m']}^2 + ({case['delta']}): a_n = {got}, hyperbola formula with the integer square root = {ref}")]
    return []


def classify_an_huge(case):
    return [f"delta={case['delta']}"], True


def classify_an(case):
    return [case["kind"]], case["kind"] != "small-block" or case["lo"] > 100


# ------------------------------------------------------------------ 7. StatesManager over real grids
@st.composite
def strat_states(draw, tier):
    d = draw(st.sampled_from([1, 1, 2, 2, 3]))
    kind = draw(st.sampled_from(["uniform-fixed", "geometric-bounds", "asymmetric"]))
    case = {"d": d, "grid": kind}
    if kind == "uniform-fixed":
        lim = {1: 200, 2: 14, 3: 7}[d]
        case["n"] = draw(st.integers(2, lim))
        case["h"] = draw(st.sampled_from([0.01, 0.1, 0.25]))
    elif kind == "geometric-bounds":
        lim = {1: 40, 2: 6, 3: 3}[d]
        case["k"] = draw(st.integers(2, lim))
        case["h"] = 0.05
        case["l"] = -draw(st.sampled_from([0.5, 1.0, 3.0]))
        case["r"] = draw(st.sampled_from([0.5, 1.0, 3.0]))
    else:
        lim = {1: 60, 2: 7, 3: 4}[d]
        case["left"] = draw(st.integers(1, lim))
        case["right"] = draw(st.integers(1, lim))
        case["shared"] = draw(st.booleans())
    case["refine"] = draw(st.integers(0, 1 if d < 3 else 0))
    return case


def _build_states_grid(case):
    from rpylib.grid.spatial import CTMCGrid, CTMCGridGeometric, CTMCUniformGrid

    d = case["d"]
    if case["grid"] == "uniform-fixed":
        g = CTMCUniformGrid.create_from_fixed_nb_of_points(h=case["h"], nb_of_points=case["n"], dimension=d)
    elif case["grid"] == "geometric-bounds":
        g = CTMCGridGeometric.create_with_bounds(h=case["h"], truncations=(case["l"], case["r"]),
                                                 dimension=d, nb_of_points_on_each_side=case["k"])
    else:
        L, R = case["left"], case["right"]
        axis = np.concatenate((-0.1 * np.arange(L, 0, -1), [0.0], 0.1 * np.arange(1, R + 1)))
        axes = [axis] * d if case["shared"] else [axis.copy() for _ in range(d)]
        g = CTMCGrid(h=0.1, origin_coordinate=L, axes=axes)
    for _ in range(case["refine"]):
        g.refine()
    return g


def body_states(case):
    from rpylib.distribution.pairing import (Boundary, Domain, PairingToZ1d, PairingToZd,
                                             RosenbergStrong, StatesManager, Szudzik)

    out = []
    g = _build_states_grid(case)
    d = case["d"]
    if d == 1:
        left = g.origin_coordinate.value
        right = len(g.axes[0]) - left - 1
        pairing = PairingToZ1d((-left, right), omit_zero=True)
        ref = {(k,) for k in range(-left, right + 1) if k != 0}
    else:
        pairing = PairingToZd(pairing=Szudzik() if d == 2 else RosenbergStrong(), dimension=d)
        oc = tuple(g.origin_coordinate)
        ref = set(itertools.product(*[range(-oc[k], len(g.axes[k]) - oc[k]) for k in range(d)]))
        ref.discard(tuple([0] * d))
    sm = StatesManager(pairing=pairing, domain=Domain(Boundary(), g, pairing), grid=g)
    got = []
    bound = 4 * (max(len(a) for a in g.axes) + 2) ** d + 16
    exhausted = False
    for x in range(bound):
        inc, flag = sm.project_index_to_state_increment(x)
        if flag:
            exhausted = True
            break
        got.append(tuple(np.atleast_1d(inc).tolist()) if d == 1 else tuple(int(c) for c in inc))
    shape = f"d{d}"
    if not exhausted:
        out.append(Violation(f"C14/states-manager/{shape}/never-signals-exhaustion",
                             f"{case}: {bound} indices without exhaustion flag"))
    from collections import Counter

    cnt = Counter(got)
    dup = [s for s, k in cnt.items() if k > 1]
    if dup:
        out.append(Violation(f"C14/states-manager/{shape}/state-returned-twice", f"{case}: {dup[:3]}"))
    extra = set(got) - ref
    if extra:
        out.append(Violation(f"C14/states-manager/{shape}/inadmissible-state", f"{case}: {sorted(extra)[:3]}"))
    miss = ref - set(got)
    if miss:
        out.append(Violation(f"C14/states-manager/{shape}/state-never-returned",
                             f"{case}: {len(miss)} of {len(ref)} missing, e.g. {sorted(miss)[:3]}"))
    return out


def classify_states(case):
    labels = [f"d={case['d']}", case["grid"], f"refine={case['refine']}"]
    nt = case["d"] >= 2 or case["grid"] == "asymmetric" or case["refine"] > 0
    return labels, nt


SUBCHECKS = [
    SubCheck("pairing-segment", body_segment, classify_segment,
             rule="exhaustive initial segments of z (projection then pairing, injectivity) and boxes of "
                  "coordinates (pairing then projection) for every pairing/dimension offered; every chunk "
                  "is non-trivial; distinct = distinct chunk",
             enumerate=enum_segments, shards={"quick": 16, "thorough": 16}, exhaustive=True),
    SubCheck("pairing-large", body_large, classify_large,
             rule="constructed values: z = m^d+delta, triangular+delta, 2^e+delta (|delta|<=3), free z and "
                  "coordinates up to 2e8 per axis; non-trivial = adjacent to a perfect power / edge "
                  "coordinates / beyond 2^53",
             strategy=strat_large, budget={"quick": 12000, "thorough": 80000},
             essential_labels=("beyond-float-precision",)),
    SubCheck("to-zd", body_zd, classify_zd,
             rule="PairingToZd over {rs,szudzik,cantor,pepis} x d in {2,3} x omit_zero: project/pair round "
                  "trips from drawn indices and drawn signed tuples; non-trivial = d=3, zero not omitted, or "
                  "a negative coordinate",
             strategy=strat_zd, budget={"quick": 12000, "thorough": 60000}),
    SubCheck("z1d-exhaustive", body_z1d, classify_z1d,
             rule="all intervals [-L,R] with L,R <= 12 (quick) / 40 (thorough) x omit_zero x four call orders "
                  "of the stateful project; non-trivial = asymmetric interval or non-sequential order",
             enumerate=enum_z1d, shards={"quick": 16, "thorough": 16}, exhaustive=True),
    SubCheck("z1d-drawn", body_z1d, classify_z1d,
             rule="drawn intervals up to 400 per side, drawn permutation prefix + repeats then sequential; "
                  "non-trivial as above",
             strategy=strat_z1d, budget={"quick": 900, "thorough": 5000}),
    SubCheck("lazy-product", body_lazy, classify_lazy,
             rule="all size tuples (d<=4) with product <= 400 (quick, thinned) / 5000 (thorough) versus "
                  "itertools.product as multisets; non-trivial = unequal sizes or d>=3",
             enumerate=enum_lazy, shards={"quick": 16, "thorough": 16}, exhaustive=True),
    SubCheck("divisor-sum", body_an, classify_an,
             rule="a_n vs naive divisor sum on blocks of 100 below 5000, vs integer-only formula for n<=1e10 "
                  "(incl. m^2+-2), upper_bound_a_n(z) bracket a(n-1)<=z<a(n) for z<2^40",
             strategy=strat_an, budget={"quick": 1800, "thorough": 10000}),
    SubCheck("divisor-sum-beyond-float-precision", body_an_huge, classify_an_huge,
             rule="a_n at n = m^2 - 1 (thorough: m^2, m^2 + 1 too) for m beyond 2^26 (the first index of the hyperbolic "
                  "pairing's shells there): against the Dirichlet hyperbola formula in exact integer arithmetic",
             enumerate=enum_an_huge, shards={"quick": 1, "thorough": 12}, exhaustive=False),
    SubCheck("states-manager", body_states, classify_states,
             rule="StatesManager over real CTMC grids (fixed-size uniform, geometric with bounds, asymmetric "
                  "shared/per-axis axes; d=1..3; 0-1 refinements): indices 0,1,2,.. until the exhaustion flag "
                  "must return exactly the in-grid non-origin increments once each; non-trivial = d>=2, "
                  "asymmetric or refined",
             strategy=strat_states, budget={"quick": 480, "thorough": 2500}),
]
