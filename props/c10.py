"""C10 - exponent, triplet, cumulants and simulation drifts describe one same process.

Oracles: Levy-Khintchine integral by quadrature of the model's own density (real and imaginary parts
separately), cumulants by a Cauchy integral of the exponent on a circle inside the strip of
analyticity, conversion sequences versus direct conversions and versus quadrature, martingale identities.
"""
from __future__ import annotations

import math

import numpy as np
from hypothesis import strategies as st

from vlib.core import SubCheck, Violation
from vlib.grids import GridRejected, build_grid, chain_model_spec
from vlib.models import _f, activity, branch_of, build_model, model_spec, quad_hints
from vlib.oracles import nu_integral

PROPERTY_ID = "C10"
INF = float("inf")
ASSUMPTIONS = [
    "exponent compared with quadrature at 1e-7 of the absolute integrals + 1e-10; arguments |Re u| <= 6, "
    "|Im u| <= 0.45 * (exponential decay rate of the density)",
    "cumulants 1,2,4,6 (those each model states) against derivatives of the exponent by a 256-node Cauchy "
    "integral, relative 1e-7",
    "Markov-chain martingale identity holds up to the independently computed tail mass outside the truncation "
    "(omega is computed on the untruncated measure)",
]


def _decay(spec):
    """(rate on the negative side, rate on the positive side) of exponential decay of the density."""
    fam, p = spec["family"], spec["params"]
    if fam == "hem":
        return p["eta2"], p["eta1"]
    if fam == "cgmy":
        return p["g"], p["m"]
    if fam == "vg":
        s2 = p["sigma"] ** 2
        lp = math.sqrt(p["theta"] ** 2 + 2 * s2 / p["nu"]) / s2 - p["theta"] / s2
        return lp + 2 * p["theta"] / s2, lp
    return 40.0, 40.0  # merton / bs: entire; keep arguments moderate


def _expm1_minus(t):
    """expm1(t) - t without cancellation"""
    if abs(t) < 1e-2:
        return t * t * (0.5 + t * (1 / 6 + t * (1 / 24 + t * (1 / 120 + t / 720))))
    return (math.expm1(t) if t < 700 else float('inf')) - t


def _sin_minus(z):
    """sin(z) - z without cancellation"""
    if abs(z) < 1e-2:
        z2 = z * z
        return -z * z2 * (1 / 6 - z2 * (1 / 120 - z2 / 5040))
    return math.sin(z) - z


def _em1(x):
    return math.expm1(x) if x < 700 else float('inf')


def _times(gx, dx):
    return 0.0 if dx == 0.0 else gx * dx


def _cutoff(rep, fv):
    if rep == "TILDE":
        rep = "ZERO" if fv else "ONEONE"
    if rep == "ZERO":
        return lambda x: 0.0
    if rep == "CENTER":
        return lambda x: 1.0
    return lambda x: 1.0 if abs(x) < 1 else 0.0


def lk_integral(spec, u, rep):
    """integral of (exp(iux) - 1 - iux c(x)) nu(x) dx by quadrature; returns (complex value, scale)."""
    nu = build_model(spec, force_exp=False).levy_triplet.nu
    if spec["family"] == "bs":
        return 0j, 0.0
    hints = quad_hints(spec) + [-1.0, 1.0]
    fa, fv = activity(spec)
    c = _cutoff(rep, fv)
    a, b = u.real, u.imag

    def re(x):
        d = float(nu(x))
        if d == 0.0:
            return 0.0
        cx = c(x)
        t = -b * x
        A = math.expm1(t) if t < 700 else float("inf")          # e^{-bx} - 1
        C1 = -2.0 * math.sin(0.5 * a * x) ** 2                   # cos(ax) - 1, no cancellation
        lin = (_expm1_minus(t) if cx == 1.0 else A)              # e^{-bx} - 1 + b x c(x)
        return (A * C1 + C1 + lin) * d

    def im(x):
        d = float(nu(x))
        if d == 0.0:
            return 0.0
        cx = c(x)
        t = -b * x
        A = math.expm1(t) if t < 700 else float("inf")
        z = a * x
        lin = _sin_minus(z) if cx == 1.0 else math.sin(z)        # sin(ax) - a x c(x)
        return (A * math.sin(z) + lin) * d

    vr, sr, _ = nu_integral(re, -INF, INF, 0, hints)
    vi, si, _ = nu_integral(im, -INF, INF, 0, hints)
    return complex(vr, vi), sr + si


# ------------------------------------------------------------------------------------ exponent
@st.composite
def strat_exponent(draw, tier):
    spec = draw(model_spec(families=("hem", "merton", "vg", "cgmy", "bs"), exp=False))
    spec["route"] = draw(st.sampled_from(["direct", "direct", "direct", "updated"]))
    if spec["family"] == "bs":
        spec["exp"] = None
    gm, gp = _decay(spec)
    re = draw(st.floats(-6, 6).map(lambda v: float(f"{v:.4g}")))
    kind = draw(st.sampled_from(["real", "complex"]))
    im = 0.0
    if kind == "complex":
        im = float(f"{draw(st.floats(-0.45, 0.45)) * (gp if draw(st.booleans()) else gm):.4g}")
        im = max(-0.45 * gp, min(0.45 * gm, im))  # exp(iux) = exp(-im x) ...: need -im < gp and im < gm
    return {"model": spec, "re": re, "im": im}


def body_exponent(case):
    out = []
    spec = case["model"]
    u = complex(case["re"], case["im"])
    if spec["family"] == "bs":
        from rpylib.model.levymodel.mixed.blackscholes import PureDiffusiveModel

        model = PureDiffusiveModel(mu=0.03, sigma=spec["params"]["sigma"])
        a0, sigma, rep = 0.03, spec["params"]["sigma"], "ZERO"
    else:
        model = build_model(spec, force_exp=False)
        a0, sigma, rep = float(model.levy_triplet.a), float(model.levy_triplet.sigma), model.levy_triplet.representation.name
    br = branch_of(spec)
    val = complex(model.levy_exponent(u))
    integ, scale = lk_integral(spec, u, rep)
    ref = 1j * u * a0 - 0.5 * sigma ** 2 * u * u + integ
    tol = 1e-7 * (scale + abs(u * a0) + abs(sigma * u) ** 2) + 1e-10
    # round-off of the closed form itself: CGMY evaluates c*Gamma(-y)*((m - iu)^y - m^y + ...), terms that are large next
    # to their sum when y is close to 0 or 1 (about ten ulps of the terms are allowed)
    if spec["family"] == "cgmy" and spec["params"]["y"] not in (0.0, 1.0):
        p_ = spec["params"]
        tol += 2e-15 * p_["c"] * abs(math.gamma(-p_["y"])) * (abs(p_["m"] - 1j * u) ** p_["y"] + abs(p_["g"] + 1j * u) ** p_["y"]
                                                               + p_["m"] ** p_["y"] + p_["g"] ** p_["y"])
    detail = f"u={u!r} model={spec} declared={rep} a={a0!r}"
    if not np.isfinite(val.real) or abs(val.real - ref.real) > tol:
        out.append(Violation(f"C10/exponent-vs-triplet/{br}/real-part",
                             f"levy_exponent={val!r}, Levy-Khintchine integral of the declared triplet={ref!r}; {detail}"))
    if not np.isfinite(val.imag) or abs(val.imag - ref.imag) > tol:
        out.append(Violation(f"C10/exponent-vs-triplet/{br}/imaginary-part",
                             f"levy_exponent={val!r}, Levy-Khintchine integral of the declared triplet={ref!r}; {detail}"))
    if u == 0 and abs(val) > 1e-9 + 10 * tol:  # closed forms cancel large terms at u = 0 (tol carries their size)
        out.append(Violation(f"C10/exponent-vs-triplet/{br}/nonzero-at-zero", f"{val!r}"))
    cf = complex(model.characteristic_function(0.7, u))
    if abs(cf - np.exp(0.7 * val)) > 1e-12 * max(1.0, abs(cf)):
        out.append(Violation(f"C10/characteristic-function-vs-exponent/{br}", f"{cf!r} vs exp(t psi)={np.exp(0.7 * val)!r}"))
    if spec["family"] != "bs":
        # the exponential model carries the same triplet: the exponent it states itself is that of the triplet too
        emodel = build_model(spec, force_exp=True)
        ea0, esig, erep = float(emodel.levy_triplet.a), float(emodel.levy_triplet.sigma), emodel.levy_triplet.representation.name
        eval_ = complex(emodel.levy_exponent(u))
        if (erep, esig) == (rep, sigma):
            eref = ref + 1j * u * (ea0 - a0)
            if not np.isfinite(abs(eval_)) or abs(eval_ - eref) > 2 * tol:
                out.append(Violation(f"C10/exponent-vs-triplet/{br}/stated-by-the-exponential-model",
                                     f"levy_exponent={eval_!r}, Levy-Khintchine integral of its triplet={eref!r}; {detail}"))
        ecf = complex(emodel.characteristic_function(0.7, u))
        if abs(ecf - np.exp(0.7 * eval_)) > 1e-12 * max(1.0, abs(ecf)):
            out.append(Violation(f"C10/characteristic-function-vs-exponent/{br}/exponential-model", f"{ecf!r} vs {np.exp(0.7 * eval_)!r}"))
        # moments of S_t/S_0 asked for in one call (a list of orders) and one by one, where the moments exist
        gm_, gp_ = _decay(spec)
        if gp_ > 4.5:
            t_ = 0.7
            one_by_one = [float(emodel.std_moment(k, t_)) for k in (1, 2, 3, 4)]
            m1, m2, m3, m4 = one_by_one
            var = m2 - m1 ** 2
            if var > 1e-12 * m1 ** 2 and all(np.isfinite(one_by_one)) and m4 < 1e12:
                sd = math.sqrt(var)
                refs = {"stddev": sd, "skewness": (m3 - 3 * m1 * var - m1 ** 3) / sd ** 3,
                        "kurtosis": (m4 - 4 * m1 * m3 + 6 * m1 ** 2 * m2 - 3 * m1 ** 4) / sd ** 4}
                # (central moments from raw ones cancel: round-off of a few hundred ulps of the raw moment over sd^k)
                cancel = {"stddev": m2 / sd ** 2 * sd, "skewness": m3 / sd ** 3, "kurtosis": m4 / sd ** 4}
                for name, r_ in refs.items():
                    got_ = float(getattr(emodel, name)(t_))
                    if sd >= 1e-12 and (not np.isfinite(got_) or abs(got_ - r_) > 1e-8 * (1 + abs(r_)) + 1e-12 * cancel[name]):
                        out.append(Violation(f"C10/moments-of-the-exponential-model/{name}",
                                             f"{name}({t_}) = {got_!r}; from the moments asked one by one {r_!r} ({one_by_one}); {detail}"))
    return out


def classify_exponent(case):
    br = branch_of(case["model"])
    kind = "complex" if case["im"] != 0 else "real"
    nt = kind == "complex" or br in ("cgmy/y<0", "cgmy/y=0", "cgmy/y=1") or \
        (case["model"]["params"].get("sigma", 0) > 0 and case["model"]["family"] in ("hem", "merton"))
    return [br, kind], nt


# ------------------------------------------------------------------------------------ cumulants
@st.composite
def strat_cumulants(draw, tier):
    spec = draw(model_spec(families=("hem", "merton", "vg", "cgmy", "bs"), exp=None))
    if spec["family"] == "bs" and draw(st.booleans()):
        spec["exp"] = None  # the plain pure diffusion mu*t + sigma*W_t
    return {"model": spec, "t": draw(_f(0.1, 3.0)), "mu": draw(st.sampled_from([0.03, -0.4, 1.7, 0.0]))}


def body_cumulants(case):
    out = []
    spec, t = case["model"], case["t"]
    if spec["family"] == "bs" and not spec["exp"]:
        # a pure diffusion with a drift of either sign (the exponential Black-Scholes model only ever passes mu = 0)
        from rpylib.model.levymodel.mixed.blackscholes import PureDiffusiveModel

        model = PureDiffusiveModel(mu=case.get("mu", 0.03), sigma=spec["params"]["sigma"])
    else:
        model = build_model(spec)
    levy = getattr(model, "levy_model", model)
    br = branch_of(spec)
    gm, gp = _decay(spec)
    rho = 0.5 * min(gm, gp, 8.0)
    n_nodes = 256
    th = 2 * np.pi * np.arange(n_nodes) / n_nodes
    s = rho * np.exp(1j * th)
    # cumulant generating function K(s) = psi(-i s)
    K = np.array([complex(levy.levy_exponent(-1j * sj)) for sj in s])
    for n in (1, 2, 3, 4, 5, 6):
        name = f"cumulant{n}"
        try:
            lib = float(getattr(model.cumulant, name)(t))
        except NotImplementedError:
            continue
        kn = (math.factorial(n) / (n_nodes * rho ** n)) * np.sum(K * np.exp(-1j * n * th))
        ref = float(kn.real) * t
        mag = (math.factorial(n) / rho ** n) * float(np.mean(np.abs(K))) * t
        # round-off of the exponent itself: CGMY evaluates c*Gamma(-y)*(...), whose terms are large next to their sum when
        # y is close to 0 or 1 (the tolerance follows the size of the terms, not of the sum)
        if spec["family"] == "cgmy" and spec["params"]["y"] not in (0.0, 1.0):
            p_ = spec["params"]
            terms = p_["c"] * abs(math.gamma(-p_["y"])) * ((p_["m"] + rho) ** p_["y"] + (p_["g"] + rho) ** p_["y"]) * (1 + rho)
            mag += (math.factorial(n) / rho ** n) * 1e-2 * terms * t
        if abs(lib - ref) > 1e-7 * abs(ref) + 1e-11 * mag + 1e-14:
            out.append(Violation(f"C10/cumulants/{br}/{name}",
                                 f"{name}({t})={lib!r}, derivative of the exponent gives {ref!r}; model={spec}"))
    return out


def classify_cumulants(case):
    br = branch_of(case["model"])
    return [br, "exp" if case["model"]["exp"] else "plain"], True


# ------------------------------------------------------------------------------------ representation changes
REPS = ["ZERO", "CENTER", "ONEONE", "TILDE"]


@st.composite
def strat_conversions(draw, tier):
    spec = draw(model_spec(families=("hem", "merton", "vg", "cgmy"), exp=None))
    fa, fv = activity(spec)
    valid = [r for r in REPS if fv or r != "ZERO"]
    seq = draw(st.lists(st.sampled_from(valid), min_size=1, max_size=6))
    return {"model": spec, "seq": seq, "a0": draw(st.sampled_from([None, 0.0, 0.37, -1.2]))}


def _first_moment(spec, region):
    nu = build_model(spec, force_exp=False).levy_triplet.nu
    hints = quad_hints(spec)
    if region == "inner":
        v, s, _ = nu_integral(nu, -1.0, 1.0, 1, hints)
        return v, s
    v1, s1, _ = nu_integral(nu, -INF, -1.0, 1, hints)
    v2, s2, _ = nu_integral(nu, 1.0, INF, 1, hints)
    return v1 + v2, s1 + s2


def body_conversions(case):
    from rpylib.model.levymodel.levymodel import LevyRepresentation

    out = []
    spec = case["model"]
    model = build_model(spec)
    trip = model.levy_triplet
    if case["a0"] is not None:
        trip.a = case["a0"]
    fa, fv = activity(spec)
    br = branch_of(spec)
    start_rep, start_a = trip.representation.name, float(trip.a)
    inner, s_in = (_first_moment(spec, "inner") if fv else (None, 0.0))
    outer, s_out = _first_moment(spec, "outer")
    scale = abs(start_a) + s_in + s_out

    def canonical(rep, a):
        """drift in the ONEONE representation from (rep, a), from the definitions, by quadrature."""
        eff = ("ZERO" if fv else "ONEONE") if rep == "TILDE" else rep
        if eff == "ONEONE":
            return a
        if eff == "ZERO":
            return a + inner
        return a - outer  # CENTER

    def from_canonical(rep, can):
        eff = ("ZERO" if fv else "ONEONE") if rep == "TILDE" else rep
        if eff == "ONEONE":
            return can
        if eff == "ZERO":
            return can - inner
        return can + outer

    can0 = canonical(start_rep, start_a)
    detail = f"model={spec} start=({start_rep}, {start_a}) sequence={case['seq']}"
    tol = 1e-7 * scale + 1e-10
    # re-declaring the triplet does not change the process: the exponent of the same object stays what it was
    us = [0.7, -2.3]
    expo = (lambda u: model.log_characteristic_function(t=1.0, x=u)) if spec["exp"] else model.levy_exponent
    psi0 = [complex(expo(u)) for u in us] if case["a0"] is None else None
    for rep in case["seq"]:
        trip.set_representation(LevyRepresentation[rep])
        if psi0 is not None:
            psi = [complex(expo(u)) for u in us]
            if any(abs(x - y) > 1e-9 * (1.0 + abs(y)) for x, y in zip(psi, psi0)):
                out.append(Violation(f"C10/conversion/{br}/exponent-changes-with-the-declared-representation",
                                     f"exponent / log-characteristic function at {us}: {psi0} as constructed, {psi} after the sequence up to {rep}; {detail}"))
                return out
        ref = from_canonical(rep, can0)
        if trip.representation.name != rep or abs(float(trip.a) - ref) > tol:
            out.append(Violation(f"C10/conversion/{br}/to-{rep}",
                                 f"after the sequence up to {rep}: a={trip.a!r} (representation "
                                 f"{trip.representation.name}), definition by quadrature gives {ref!r}; {detail}"))
            return out
    trip.set_representation(LevyRepresentation[start_rep])
    if abs(float(trip.a) - start_a) > 1e-9 * scale + 1e-12:
        out.append(Violation(f"C10/conversion/{br}/not-reversible",
                             f"back in {start_rep}: a={trip.a!r}, started from {start_a!r}; {detail}"))
    return out


def classify_conversions(case):
    br = branch_of(case["model"])
    return [br, f"len={len(case['seq'])}"], len(case["seq"]) >= 2


# ------------------------------------------------------------------------------------ martingale routes
@st.composite
def strat_martingale(draw, tier):
    spec = draw(chain_model_spec(families=("hem", "merton", "vg", "cgmy"), exp=True))
    if spec["family"] == "cgmy":
        spec["params"]["m"] = max(spec["params"]["m"], 2.0)
    if spec["family"] == "hem":
        spec["params"]["eta1"] = max(spec["params"]["eta1"], 2.5)
    include_bs = draw(st.integers(0, 7)) == 0
    if include_bs:
        spec = {"family": "bs", "params": {"sigma": draw(_f(0.01, 0.6))},
                "exp": {"spot": draw(_f(1.0, 500.0)), "r": draw(_f(0.0, 0.1)), "d": draw(_f(0.0, 0.1))}}
    if not include_bs:
        spec["route"] = draw(st.sampled_from(["direct", "direct", "updated"]))
    return {"model": spec, "T": draw(_f(0.1, 3.0)),
            "grid": {"type": draw(st.sampled_from(["uniform", "geometric", "probstep"])), "h_rel": draw(_f(0.1, 1.0)),
                     "p": 0.99999, "k": draw(st.integers(6, 12)), "refine": draw(st.integers(0, 1)), "dimension": 1,
                     "p_step": draw(_f(0.02, 0.1))}}


def body_martingale(case):
    from rpylib.distribution.sampling import SamplingMethod
    from rpylib.distribution.samplingfactory import create_q_vector
    from rpylib.process.levyprocess import LevyProcess
    from rpylib.process.markovchain.markovchain import MarkovChainProcess
    from props.c04 import _product

    out = []
    spec, T = case["model"], case["T"]
    e = spec["exp"]
    model = build_model(spec)
    br = branch_of(spec)
    log_fwd = math.log(e["spot"]) + (e["r"] - e["d"]) * T
    detail = f"model={spec} T={T}"
    # route 1: characteristic function at -i
    cf = complex(model.log_characteristic_function(T, -1j))
    if abs(cf.imag) > 1e-9 * abs(cf) or abs(math.log(cf.real) - log_fwd) > 1e-9 * max(1.0, abs(log_fwd)):
        out.append(Violation(f"C10/martingale/characteristic-function/{br}",
                             f"E[S_T] from the characteristic function {cf!r}, forward {math.exp(log_fwd)!r}; {detail}"))
    if abs(float(model.df(T)) - math.exp(-e["r"] * T)) > 1e-14:
        out.append(Violation(f"C10/discount-factor/{br}", f"df({T})={model.df(T)!r}"))
    # the same route with the argument in an array the caller keeps (a pricer loops over maturities with one frequency
    # vector): every evaluation equals the scalar one and the caller's array is left as it was
    for dtype in (complex, float):
        u = np.array([-1j, 0.3 - 0.2j], dtype=complex) if dtype is complex else np.array([0.0, 0.7], dtype=float)
        keep = u.copy()
        vals = [np.asarray(model.log_characteristic_function(T, u), dtype=complex).ravel() for _ in range(2)]
        scal = np.array([complex(model.log_characteristic_function(T, complex(z) if dtype is complex else float(z))) for z in keep])
        if not np.array_equal(u, keep):
            out.append(Violation(f"C10/characteristic-function/argument-array-modified/{br}",
                                 f"{keep.tolist()} -> {u.tolist()}; {detail}"))
            break
        if any(v.shape != scal.shape or not np.allclose(v, scal, rtol=1e-12, atol=1e-300) for v in vals):
            out.append(Violation(f"C10/characteristic-function/array-evaluation-differs-from-scalar/{br}",
                                 f"two evaluations at {keep.tolist()}: {[v.tolist() for v in vals]} vs scalar {scal.tolist()}; {detail}"))
            break
    sigma = float(model.levy_triplet.sigma)
    if spec["family"] == "bs":
        g = float(LevyProcess(model).deterministic_path(np.array([T]))[0]) + 0.5 * sigma ** 2 * T
        if abs(g - log_fwd) > 1e-10 * max(1.0, abs(log_fwd)):
            out.append(Violation("C10/martingale/direct-simulation-drift/bs", f"{g!r} vs {log_fwd!r}; {detail}"))
        return out
    nu = build_model(spec, force_exp=False).levy_triplet.nu
    hints = quad_hints(spec) + [-1.0, 1.0]
    # route 2: drift used for direct simulation (models that can simulate their jumps): jumps are drawn from nu
    # itself, so log E[S_T] = x0 + T (process_drift + sigma^2/2 + integral (e^x - 1) nu)
    if spec["family"] in ("hem", "merton"):
        ex, sc, _ = nu_integral(lambda x: _times(_em1(x), float(nu(x))), -INF, INF, 0, hints)
        det = float(LevyProcess(model).deterministic_path(np.array([T]))[0])
        g = det + T * (0.5 * sigma ** 2 + ex)
        if abs(g - log_fwd) > 1e-8 * (1.0 + T * (sc + sigma ** 2)):
            out.append(Violation(f"C10/martingale/direct-simulation-drift/{br}",
                                 f"log E[S_T] under the direct-simulation drift = {g!r}, log forward = {log_fwd!r} "
                                 f"(difference per unit time {(g - log_fwd) / T!r}); {detail}"))
    # route 3: drift used by the Markov-chain approximation, under the exact truncated jump law
    try:
        grid = build_grid(case["grid"], model, spec)
    except GridRejected as ex_:
        return out + [Violation("REJECTED", str(ex_))]
    if len(grid.axes[0]) > 1500:
        return out + [Violation("REJECTED", "axis too large")]
    proc = MarkovChainProcess(model=model, method=SamplingMethod.BINARYSEARCHTREEADAPTED1D, grid=grid)
    proc.initialisation(_product())
    q = np.array(create_q_vector(proc.model.levy_triplet.nu, grid), dtype=float)
    axis = np.array(grid.axes[0], dtype=float)
    mean_rate = float(proc.process_drift()) + float(np.dot(axis, q))
    l, r = (float(v) for v in grid.truncations[0])
    conv, sc, _ = nu_integral(lambda x: _times(_expm1_minus(x), float(nu(x))), l, r, 0, hints)
    g = math.log(e["spot"]) + T * (mean_rate + 0.5 * sigma ** 2 + conv)
    tail = 0.0
    for a, b in ((-INF, l), (r, INF)):
        tail += nu_integral(lambda x: _times(abs(_em1(x)) + abs(x), float(nu(x))), a, b, 0, hints)[0]
    if abs(g - log_fwd) > T * tail + 1e-7 * (1.0 + T * (sc + abs(mean_rate))):
        out.append(Violation(f"C10/martingale/markov-chain-drift/{br}",
                             f"log E[S_T] under the chain's mean rate and the truncated jump law = {g!r}, log forward "
                             f"= {log_fwd!r}, allowed truncation leak {T * tail:.3g}; {detail} grid={case['grid']}"))
    return out


def classify_martingale(case):
    br = branch_of(case["model"])
    return [br, case["grid"]["type"], "parameters-" + case["model"].get("route", "direct")], True


SUBCHECKS = [
    SubCheck("exponent-vs-triplet", body_exponent, classify_exponent,
             rule="family x parameters (five CGMY branches, pure diffusion) x real u in [-6,6] or complex u inside "
                  "the strip of analyticity: levy_exponent(u) vs i u a - sigma^2 u^2/2 + quadrature of "
                  "(e^{iux} - 1 - iux c_declared(x)) nu(x), real and imaginary parts separately; non-trivial = "
                  "complex u, CGMY special branch, or diffusion plus jumps",
             strategy=strat_exponent, budget={"quick": 1440, "thorough": 8000},
             essential_labels=("cgmy/y=0", "cgmy/y=1", "cgmy/y<0", "complex")),
    SubCheck("cumulants", body_cumulants, classify_cumulants,
             rule="every stated cumulant (1,2,4,6; all six for Black-Scholes) vs n-th derivative of the exponent at "
                  "0 from a 256-node Cauchy integral, plain and exponential models",
             strategy=strat_cumulants, budget={"quick": 960, "thorough": 5000}),
    SubCheck("representation-changes", body_conversions, classify_conversions,
             rule="sequences of 1..6 set_representation calls over the representations valid for the model (ZERO "
                  "only for finite variation), optional re-based drift: after every call a must equal the "
                  "definition (quadrature of x nu on |x|<1 / |x|>=1), and returning to the start restores a; "
                  "non-trivial = >= 2 changes",
             strategy=strat_conversions, budget={"quick": 960, "thorough": 5000}),
    SubCheck("martingale-routes", body_martingale, classify_martingale,
             rule="exponential models x maturity: characteristic function at -i, direct-simulation drift (HEM, "
                  "Merton, BS), Markov-chain drift on uniform/geometric grids (0-1 refinements) under the exact "
                  "truncated jump law, all against S0 exp((r-d)T)",
             strategy=strat_martingale, budget={"quick": 480, "thorough": 2400},
             shards={"quick": 16, "thorough": 16}),
]
