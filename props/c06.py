"""C06 - sample allocation meets the variance budget; runs stop only on stated criteria.

(a) pure functions compute_mc_paths_giles / criteria_giles on generated vectors: the variance share and the
    bias tolerance are *measured* from the functions themselves, then the budget identities are checked;
(b) trajectories of the adaptive loop on the scripted coupling (shared with C05): every decision of the run
    is recorded through spies on the configuration's criteria / allocation functions and on the ledger.
"""
from __future__ import annotations

import math

import numpy as np
from hypothesis import strategies as st

from vlib.core import SubCheck, Violation
from vlib.mlmc_harness import PASS_BUDGET, mlmc_case, run_scripted_mlmc
from vlib.models import _f

PROPERTY_ID = "C06"
ASSUMPTIONS = [
    "termination is checked as 'terminated within 200 passes / 30000 samples on every generated trajectory'; a "
    "budget hit is reported as inconclusive, never as a violation",
    "the variance share (1-theta) and the bias tolerance are measured from the library's own functions",
]


def _measured_shares():
    """(variance share 1-theta, squared bias tolerance / rmse^2) measured from the library functions."""
    from rpylib.montecarlo.multilevel.criteria import compute_mc_paths_giles, criteria_giles

    n = int(compute_mc_paths_giles(1.0, np.array([1e12]), np.array([1.0]))[0])
    var_share = 1e12 / n
    alpha = 1.0  # 2^alpha - 1 = 1: the remaining bias estimate equals the last level mean
    lo, hi = 0.0, 10.0
    for _ in range(200):
        mid = 0.5 * (lo + hi)
        if criteria_giles(alpha, np.array([0.0, 0.0, mid]), 1.0):
            lo = mid
        else:
            hi = mid
    return var_share, lo ** 2


@st.composite
def strat_alloc(draw, tier):
    n = draw(st.integers(1, 12))
    kinds = draw(st.lists(st.sampled_from(["pos", "pos", "pos", "zero-v", "zero-c", "tiny"]), min_size=n, max_size=n))
    vl, cl = [], []
    for k in kinds:
        v = draw(_f(1e-6, 10.0))
        c = draw(_f(0.1, 1000.0))
        if k == "zero-v":
            v = 0.0
        elif k == "zero-c":
            c = 0.0
        elif k == "tiny":
            v = v * 1e-9
        vl.append(v)
        cl.append(c)
    return {"vl": vl, "cl": cl, "rmse": float(f"{10.0 ** draw(st.floats(-3, 1)):.4g}"), "alpha": draw(_f(0.1, 3.0)),
            "bump": draw(st.integers(0, n - 1)), "factor": draw(_f(1.0, 10.0))}


def body_alloc(case):
    from rpylib.montecarlo.multilevel.criteria import compute_mc_paths_giles, criteria_giles

    out = []
    vl, cl, eps = np.array(case["vl"], dtype=float), np.array(case["cl"], dtype=float), case["rmse"]
    detail = f"vl={case['vl']} cl={case['cl']} rmse={eps}"
    var_share, bias_sq = _measured_shares()
    if bias_sq + var_share > 1.0 + 1e-9:
        out.append(Violation("C06/budget-split/bias-tolerance-plus-variance-share-exceeds-rmse2",
                             f"squared bias tolerance {bias_sq:.6g} rmse^2 + variance share {var_share:.6g} rmse^2 "
                             f"= {bias_sq + var_share:.6g} rmse^2 > rmse^2"))
    N = np.asarray(compute_mc_paths_giles(eps, vl.copy(), cl.copy()))
    if N.shape != vl.shape or np.any(N < 0):
        out.append(Violation("C06/allocation/shape-or-negative", f"N={N}; {detail}"))
        return out
    pos = vl > 0
    if np.any(N[pos] < 1):
        out.append(Violation("C06/allocation/positive-variance-level-without-samples", f"N={N}; {detail}"))
        return out
    est_var = float(np.sum(vl[pos] / N[pos]))
    budget = var_share * eps ** 2
    if est_var > budget * (1 + 1e-9):
        zc = bool(np.any((cl == 0) & pos))
        key = "C06/allocation/variance-budget-missed" + ("/zero-cost-level-with-positive-variance" if zc else "")
        out.append(Violation(key, f"sum V_l/N_l = {est_var!r} > variance share of rmse^2 = {budget!r}; N={N.tolist()}; "
                                  f"{detail}"))
    # monotone in the variance of one level (others fixed): N_l cannot decrease when V_l increases
    v2 = vl.copy()
    v2[case["bump"]] *= case["factor"]
    N2 = np.asarray(compute_mc_paths_giles(eps, v2, cl.copy()))
    if np.any(N2 < N):
        out.append(Violation("C06/allocation/not-monotone-in-variance",
                             f"V[{case['bump']}] x {case['factor']}: N {N.tolist()} -> {N2.tolist()}; {detail}"))
    # the inputs are not modified
    if not np.array_equal(vl, np.array(case["vl"], dtype=float)) or not np.array_equal(cl, np.array(case["cl"], dtype=float)):
        out.append(Violation("C06/allocation/modifies-its-inputs", detail))
    # the bias test is monotone: passes at m => passes at m/2
    a = case["alpha"]
    ml = np.abs(vl[:3]) if len(vl) >= 3 else np.array([0.1, 0.05, 0.02])
    if len(ml) == 3 and criteria_giles(a, ml, eps) and not criteria_giles(a, ml / 2, eps):
        out.append(Violation("C06/criteria/not-monotone", f"ml={ml} alpha={a} rmse={eps}"))
    return out


def classify_alloc(case):
    vl, cl = case["vl"], case["cl"]
    labels = [f"levels={'1' if len(vl) == 1 else ('2-3' if len(vl) <= 3 else '4+')}"]
    if any(v == 0 for v in vl):
        labels.append("zero-variance")
    if any(c == 0 for c in cl):
        labels.append("zero-cost")
    pos = [(v, c) for v, c in zip(vl, cl) if v > 0 and c > 0]
    nt = len(pos) >= 3 and len({v for v, _ in pos}) >= 3
    return labels, nt


# ------------------------------------------------------------------------------------ trajectories
@st.composite
def strat_runs(draw, tier):
    case = draw(mlmc_case(tier, with_cv=False, modes=("adaptive",), low_levels=True))
    # one Engine object priced twice (a looser or a tighter run first): the guarantees hold for the second pricing alone
    case["priced_before"] = draw(st.sampled_from([None, None, None, 0.4, 3.0]))
    return case


def body_runs(case):
    from rpylib.montecarlo.multilevel.criteria import compute_mc_paths_giles

    out = []
    rec = run_scripted_mlmc(case)
    led = rec["ledger"]
    detail = f"case={case}"
    max_level = case["maximum_level"]
    sim_levels = [e[1] for e in led.events if e[0] == "sim"]
    nl_levels = [e[1] for e in led.events if e[0] == "next_level"]
    # (decided from the ledger, also for a run stopped by the harness budget)
    if sim_levels and max(sim_levels) > max_level:
        out.append(Violation("C06/run/sample-simulated-above-the-maximum-level",
                             f"level {max(sim_levels)} > maximum {max_level}; {detail}"))
    if nl_levels and max(nl_levels) > max_level:
        out.append(Violation("C06/run/level-created-above-the-maximum-level",
                             f"next_level up to {max(nl_levels)} > maximum {max_level}; {detail}"))
    if rec["status"] == "budget":
        return out + [Violation("INCONCLUSIVE", rec["error"]), Violation("LABEL:budget-hit")]
    passes = rec["passes"]
    if not passes:
        out.append(Violation("C06/run/returned-without-results", detail))
        return out
    final = passes[-1]
    Nl = np.array(final["Nl"], dtype=float)
    L = len(Nl) - 1
    if L > max_level:
        out.append(Violation("C06/run/more-levels-than-the-maximum", f"L={L}; {detail}"))
    # stopping: the last decision before returning
    crit = rec["crit_calls"]
    if any(not np.isfinite(c["alpha"]) for c in crit):
        out.append(Violation("C06/run/bias-test-run-with-a-non-finite-weak-rate",
                             f"the criterion received alpha={[c['alpha'] for c in crit][:4]} (rates: {case['rates']}); {detail}"))
    # the variance budget on the simulated samples themselves (ledger): sum_l Var(fine - coarse payoff)/N_l <= (1 - theta)
    # rmse^2, up to the 1 % shortfall the stopping rule tolerates per level
    from props.c05 import expected_arrays

    counts = final["ledger_counts"]
    est_var = 0.0
    for l in range(L + 1):
        f_, c_, rows_ = expected_arrays(case, led, counts, l, rec.get("offsets"))
        if len(rows_):
            est_var += float(np.var(f_ - c_)) / len(rows_)
    budget = 0.75 * case["rmse"] ** 2
    if est_var > 1.0101 * budget * (1 + 1e-9) + 1e-300:
        out.append(Violation("C06/run/variance-budget-missed-on-the-simulated-samples",
                             f"sum of sample variances / N_l = {est_var!r} > 0.75 rmse^2 = {budget!r} (N_l={Nl.tolist()}); {detail}"))
    # a configured weak rate is the one the bias test is run with (0 included)
    given_alpha = {"given": case["law"]["alpha"], "mixed": case["law"]["alpha"], "zero-alpha": 0.0}.get(case["rates"])
    if given_alpha is not None and any(abs(c["alpha"] - given_alpha) > 1e-12 for c in crit):
        bad = next(c for c in crit if abs(c["alpha"] - given_alpha) > 1e-12)
        out.append(Violation("C06/run/bias-test-not-run-with-the-configured-weak-rate",
                             f"configured alpha={given_alpha}, the criterion received alpha={bad['alpha']}; {detail}"))
    stopped_on_max = (L == max_level)
    if not crit:
        out.append(Violation("C06/run/returned-without-testing-the-bias", detail))
    else:
        last = crit[-1]
        if not last["result"] and not stopped_on_max:
            out.append(Violation("C06/run/returned-although-bias-test-failed-and-maximum-level-not-reached",
                                 f"last bias test {last}; L={L} maximum={max_level}; {detail}"))
        # the bias test looked at the final level means (same number of levels, consistent with the samples)
        if len(last["ml"]) != L + 1:
            out.append(Violation("C06/run/bias-test-on-stale-levels", f"{len(last['ml'])} means for L={L}; {detail}"))
        else:
            ref = final["results"]["ml"]
            low = min(3, L + 1)
            if not np.allclose(last["ml"][:low], ref[:low], rtol=1e-9, atol=1e-12) or np.any(last["ml"] < ref - 1e-12):
                out.append(Violation("C06/run/bias-test-not-on-the-final-level-means",
                                     f"tested {last['ml']} vs final {ref}; {detail}"))
    # the bias test on the simulated samples themselves (ledger): a run that stopped below the maximum level on Giles'
    # criterion has a remaining-bias estimate below sqrt(theta) rmse, with the level means taken from what was simulated
    # (the engine's work-around for vanishing means applied) and the weak rate the criterion was run with
    if crit and not stopped_on_max and case.get("criteria", "giles") == "giles" and not case["controls"] and L >= 2 \
            and np.isfinite(crit[-1]["alpha"]):
        alpha_used = float(crit[-1]["alpha"])
        means = []
        for l in range(L + 1):
            f_, c_, rows_ = expected_arrays(case, led, counts, l, rec.get("offsets"))
            means.append(abs(float(np.mean(f_ - c_))) if len(rows_) else 0.0)
        for l in range(3, L + 1):
            means[l] = max(means[l], 0.5 * means[l - 1] / 2 ** alpha_used)
        if 2 ** alpha_used - 1 > 0:
            rem = max(means[-1], means[-2] / 2 ** alpha_used, means[-3] / 2 ** (2 * alpha_used)) / (2 ** alpha_used - 1)
            if rem > 0.5 * case["rmse"] * (1 + 1e-6):
                out.append(Violation("C06/run/bias-test-fails-on-the-simulated-samples",
                                     f"returned at L={L} < {max_level}: remaining bias from the simulated samples {rem!r} > "
                                     f"sqrt(theta) rmse = {0.5 * case['rmse']!r} (level means {means}, alpha {alpha_used}); {detail}"))
    # allocation: every level has its optimal number of samples within the 1% rule
    alloc = rec["alloc_calls"]
    if alloc:
        last = alloc[-1] if len(alloc[-1]["vl"]) == L + 1 else None
        if last is None:
            out.append(Violation("C06/run/allocation-on-stale-levels", f"L={L}; {detail}"))
        else:
            ref_v = final["results"]["vl"]
            low = min(3, L + 1)
            if not np.allclose(last["vl"][:low], ref_v[:low], rtol=1e-9, atol=1e-15) or np.any(last["vl"] < ref_v - 1e-15):
                out.append(Violation("C06/run/allocation-not-from-the-final-variances",
                                     f"used {last['vl']} vs final {ref_v}; {detail}"))
            Ns = np.asarray(compute_mc_paths_giles(case["rmse"], last["vl"].copy(), last["cl"].copy()), dtype=float)
            short = np.maximum(0.0, Ns - Nl)
            if np.any(short > 0.01 * Nl + 1e-9):
                out.append(Violation("C06/run/returned-before-the-optimal-sample-sizes",
                                     f"optimal {Ns.tolist()} vs simulated {Nl.tolist()}; {detail}"))
    out.append(Violation("LABEL:stopped-at-maximum-level" if stopped_on_max else "LABEL:stopped-on-bias-test"))
    out.append(Violation("LABEL:engine-priced-before" if case.get("priced_before") else "LABEL:first-pricing"))
    added = len(passes[-1]["Nl"]) > len(passes[0]["Nl"])
    if added:
        out.append(Violation("LABEL:levels-added"))
    if added or stopped_on_max:
        out.append(Violation("NONTRIVIAL"))
    return out


def classify_runs(case):
    return [f"rates={case['rates']}", f"L0={case['initial_level']}", f"Lmax-L0={case['maximum_level'] - case['initial_level']}",
            f"criteria={case.get('criteria', 'giles')}", f"law={case.get('flavour', 'plain')}"], False


SUBCHECKS = [
    SubCheck("allocation-and-bias-split", body_alloc, classify_alloc,
             rule="variance / cost vectors of length 1..12 with zeros, tiny and ordinary entries, rmse over four "
                  "decades, alpha in [0.1,3]: sum V_l/N_l <= measured variance share of rmse^2, measured squared bias "
                  "tolerance + variance share <= rmse^2, monotone in V_l, inputs untouched; non-trivial = >= 3 levels "
                  "with distinct positive V and positive C",
             strategy=strat_alloc, budget={"quick": 6000, "thorough": 40000}),
    SubCheck("adaptive-trajectories", body_runs, classify_runs,
             rule="adaptive runs of the real engine on the scripted coupling (as C05, no controls): no sample / level "
                  "above the maximum, returned only if the last bias test passed or L = maximum, last allocation "
                  "computed from the final variances and satisfied within the 1% rule, terminated within the budget; "
                  "non-trivial = a level was added or the run stopped at the maximum level",
             strategy=strat_runs, budget={"quick": 960, "thorough": 5000}, shards={"quick": 16, "thorough": 16},
             essential_labels=("stopped-on-bias-test", "stopped-at-maximum-level")),
]
