"""C17 - payoffs and underlyings are pure functions of the path obeying static identities.

Histories (operation lists over one Product object: evaluate path i, switch representation) are compared
with fresh objects; identity and log representations are compared on the same spot path; static
identities are checked on generated paths and strikes.
"""
from __future__ import annotations

import math

import numpy as np
from hypothesis import strategies as st

from vlib.core import SubCheck, Violation
from vlib.models import _f

PROPERTY_ID = "C17"
ASSUMPTIONS = [
    "paths are positive spot paths with 2..40 points; in log representation the same path is passed as logarithms",
    "payoff classes that raise by design (LookBack.process) are excluded",
]


@st.composite
def _path(draw, n=None, d=1):
    n = n or draw(st.integers(2, 12))
    gaps = [draw(_f(0.01, 0.5)) for _ in range(n - 1)]
    # most grids start at 0 (what the engines produce); a fifth start later (seasoned / forward-start fixing dates)
    t0 = draw(st.sampled_from([0.0, 0.0, 0.0, 0.0, 0.25]))
    times = [t0] + [float(f"{t0 + v:.6g}") for v in np.cumsum(gaps)]
    rows = []
    for _ in range(d):
        s = draw(_f(20.0, 200.0))
        vals = [s]
        for _ in range(n - 1):
            vals.append(float(f"{vals[-1] * math.exp(draw(st.floats(-0.3, 0.3))):.6g}"))
        rows.append(vals)
    # pure-jump part of the path (positive, piecewise constant: a few jumps)
    jrows = []
    for _ in range(d):
        # (the level of the pure-jump component is arbitrary: after thousands of small down jumps it is far below 1e-16)
        j = [draw(st.sampled_from([1.0, 1.0, 1.0, 1.0, 3e-18, 4e5]))]
        for _ in range(n - 1):
            j.append(float(f"{j[-1] * math.exp(draw(st.sampled_from([0.0, 0.0, -0.25, -0.08, 0.1, -0.6, -1.3, -2.4]))):.6g}"))
        jrows.append(j)
    return {"times": times, "path": rows, "jump": jrows}


def _arr(p, key, rep):
    a = np.array(p[key], dtype=float)
    a = np.log(a) if rep == "LOG" else a
    return a[0] if a.shape[0] == 1 else a


def _rep(name):
    from rpylib.process.process import ProcessRepresentation

    return ProcessRepresentation[name]


# ------------------------------------------------------------------------------------ histories on one product
PRODUCTS = ["barrier-down-in", "barrier-down-out", "barrier-up-in", "barrier-up-out", "vanilla-call", "forward",
            "digital-put", "callspread", "asian-call", "defaulttime-cds"]


@st.composite
def strat_history(draw, tier):
    kind = draw(st.sampled_from(PRODUCTS))
    n = draw(st.integers(3, 10))
    paths = [draw(_path(n=n)) for _ in range(draw(st.integers(2, 4)))]
    # twins: the same path with one interior value pushed far down or up (same terminal value, different extremes) - a
    # path-dependent payoff must tell them apart whatever it evaluated just before
    for j in range(len(paths)):
        if draw(st.integers(0, 2)) == 0:
            twin = {"times": list(paths[j]["times"]), "path": [list(r) for r in paths[j]["path"]],
                    "jump": [list(r) for r in paths[j]["jump"]]}
            i = draw(st.integers(1, n - 2))
            twin["path"][0][i] = float(f"{twin['path'][0][i] * draw(st.sampled_from([0.2, 5.0])):.6g}")
            paths.append(twin)
    ops = draw(st.lists(st.one_of(st.tuples(st.just("eval"), st.integers(0, len(paths) - 1)),
                                  st.tuples(st.just("eval"), st.integers(0, len(paths) - 1)),
                                  st.tuples(st.just("update"), st.sampled_from(["LOG", "IDENDITY"])),
                                  # the history continues on a deep copy of the product (one configured product priced
                                  # under several processes); the original is looked at again at the end
                                  st.tuples(st.just("copy"), st.just("deep"))),
                        min_size=3, max_size=14))
    return {"kind": kind, "paths": paths, "ops": [list(o) for o in ops], "strike": draw(_f(40.0, 160.0)),
            "barrier": draw(_f(40.0, 160.0)), "notional": draw(st.sampled_from([1.0, 2.5, 100.0])),
            "level": -draw(_f(0.05, 0.5))}


def _make_product(case):
    from rpylib.product.payoff import (CDS, Barrier, BarrierType, CallSpread, Digital, Forward, PayoffType, Vanilla)
    from rpylib.product.product import Product
    from rpylib.product.underlying import Asian, DefaultTime, Spot

    k, kind = case["strike"], case["kind"]
    und = Spot()
    if kind.startswith("barrier"):
        bt = {"barrier-down-in": BarrierType.DOWN_AND_IN, "barrier-down-out": BarrierType.DOWN_AND_OUT,
              "barrier-up-in": BarrierType.UP_AND_IN, "barrier-up-out": BarrierType.UP_AND_OUT}[kind]
        payoff = Barrier(strike=k, payoff_type=PayoffType.CALL, barrier_type=bt, barrier=case["barrier"])
    elif kind == "vanilla-call":
        payoff = Vanilla(strike=k, payoff_type=PayoffType.CALL)
    elif kind == "forward":
        payoff = Forward(strike=k)
    elif kind == "digital-put":
        payoff = Digital(strike=k, payoff_type=PayoffType.PUT)
    elif kind == "callspread":
        payoff = CallSpread(strike1=k, strike2=k * 1.2)
    elif kind == "asian-call":
        payoff, und = Vanilla(strike=k, payoff_type=PayoffType.CALL), Asian()
    else:
        payoff = CDS(recovery_rate=0.4, spread=0.02, maturity=case["paths"][0]["times"][-1], discounting=lambda t: math.exp(-0.03 * t))
        und = DefaultTime(default_level=case["level"])
    return Product(payoff_underlying=und, payoff=payoff, maturity=case["paths"][0]["times"][-1], notional=case["notional"])


def _evaluate(product, p, rep, barrier_in_log):
    times = np.array(p["times"], dtype=float)
    path = _arr(p, "path", rep)
    jump = _arr(p, "jump", rep)
    u = product.underlying_value(times, path, jump)
    return float(np.asarray(product(u), dtype=float))


def body_history(case):
    out = []
    prod = _make_product(case)
    rep = "IDENDITY"
    detail = f"case kind={case['kind']} ops={case['ops']} strike={case['strike']} barrier={case['barrier']}"
    first = {}
    originals = []
    for step, (op, arg) in enumerate(list(case["ops"]) + [["eval-originals", 0]]):
        if op == "copy":
            import copy as _copy

            originals.append((prod, rep))
            prod = _copy.deepcopy(prod)
            continue
        if op == "eval-originals":
            # what the copies evaluated since must not show in the objects they were copied from
            for k_, (orig, orep) in enumerate(originals):
                p0 = case["paths"][0]
                fresh = _make_product(case)
                if orep == "LOG":
                    fresh.update(_rep("LOG"))
                try:
                    got, exp = _evaluate(orig, p0, orep, False), _evaluate(fresh, p0, orep, False)
                except Exception as e:  # noqa: BLE001
                    out.append(Violation(f"C17/history/{case['kind']}/evaluation-raises/{type(e).__name__}",
                                         f"original of copy {k_} ({orep}): {e!r}; {detail}"))
                    return out
                if got != exp and not (math.isnan(got) and math.isnan(exp)):
                    out.append(Violation(f"C17/history/{case['kind']}/original-changed-by-what-its-deep-copy-evaluated",
                                         f"original of copy {k_}: path 0 in {orep} representation valued {got!r}, {exp!r} by "
                                         f"a fresh product; {detail}"))
                    return out
            continue
        if op == "update":
            # the barrier payoff scans the raw path: the engines only switch representation before any evaluation, and a
            # barrier in log-representation would need log-barriers; keep barrier products in identity representation
            if case["kind"].startswith("barrier"):
                continue
            prod.update(_rep(arg))
            rep = arg
            continue
        p = case["paths"][arg]
        try:
            got = _evaluate(prod, p, rep, False)
        except Exception as e:  # noqa: BLE001
            out.append(Violation(f"C17/history/{case['kind']}/evaluation-raises/{type(e).__name__}",
                                 f"step {step} ({rep}): {e!r}; {detail}"))
            return out
        fresh = _make_product(case)
        if rep == "LOG":
            fresh.update(_rep("LOG"))
        try:
            exp = _evaluate(fresh, p, rep, False)
        except Exception as e:  # noqa: BLE001
            out.append(Violation(f"C17/history/{case['kind']}/evaluation-raises/{type(e).__name__}",
                                 f"fresh product ({rep}): {e!r}; {detail}"))
            return out
        if got != exp and not (math.isnan(got) and math.isnan(exp)):
            out.append(Violation(f"C17/history/{case['kind']}/value-depends-on-earlier-evaluations-or-switches",
                                 f"step {step}: path {arg} in {rep} representation valued {got!r} after the history, "
                                 f"{exp!r} by a fresh product; {detail}"))
            return out
        key = (arg, rep)
        if key in first and first[key] != got and not math.isnan(got):
            out.append(Violation(f"C17/history/{case['kind']}/re-evaluation-differs", f"step {step}; {detail}"))
            return out
        first[key] = got
    return out


def classify_history(case):
    ops = [o[0] for o in case["ops"]]
    labels = [case["kind"]]
    switched = "update" in ops and ops.index("update") < len(ops) - 1 and "eval" in ops[ops.index("update"):]
    if switched:
        labels.append("switch-then-evaluate")
    reps = [o[1] for o in case["ops"] if o[0] == "update"]
    if "LOG" in reps and "IDENDITY" in reps[reps.index("LOG"):]:
        labels.append("log-then-identity")
    if "copy" in ops and "eval" in ops[ops.index("copy"):]:
        labels.append("deep-copy-then-evaluate")
    nevals = sum(1 for o in ops if o == "eval")
    return labels, (nevals >= 2 and (case["kind"].startswith("barrier") or switched))


# ------------------------------------------------------------------------------------ representations agree
UNDERLYINGS = ["spot", "libors", "logspot", "asian", "mean", "performances", "maxperf", "nthspot", "indicators",
               "defaulttime", "defaulttime-nth", "nth-default"]


@st.composite
def strat_underlying(draw, tier):
    kind = draw(st.sampled_from(UNDERLYINGS))
    d = 1 if kind in ("asian", "defaulttime") else draw(st.sampled_from([2, 3])) if kind not in ("spot", "libors", "logspot") else draw(st.sampled_from([1, 2]))
    p = draw(_path(d=d))
    levels = [-draw(_f(0.05, 0.5)) for _ in range(d)]
    if draw(st.integers(0, 5)) == 0:  # thresholds written as python integers (a default = a log-jump below -1, -2)
        levels = [-draw(st.integers(1, 2)) for _ in range(d)]
    return {"kind": kind, "d": d, "path": p, "index": draw(st.integers(1, d)), "levels": levels,
            "thresholds": [draw(_f(30.0, 150.0)) for _ in range(d)], "spots": [draw(_f(20.0, 200.0)) for _ in range(d)],
            # the underlying is used on its own or as the payoff underlying of a product (the engines' route: the product
            # is switched to the process representation and asked for the underlying value)
            "via_product": draw(st.booleans())}


def _make_underlying(case):
    from rpylib.product import underlying as U

    k, d = case["kind"], case["d"]
    return {"spot": lambda: U.Spot(), "libors": lambda: U.Libors(), "logspot": lambda: U.LogSpot(), "asian": lambda: U.Asian(),
            "mean": lambda: U.Mean(), "performances": lambda: U.Performances(case["spots"]),
            "maxperf": lambda: U.MaximumOfPerformances(case["spots"]), "nthspot": lambda: U.NthSpot(case["index"]),
            "indicators": lambda: U.Indicators(case["thresholds"]), "defaulttime": lambda: U.DefaultTime(case["levels"][0]),
            "defaulttime-nth": lambda: U.DefaultTimeNthUnderlying(case["levels"], case["index"]),
            "nth-default": lambda: U.NthDefaultTimes(case["levels"], case["index"])}[k]()


def body_underlying(case):
    out = []
    p = case["path"]
    times = np.array(p["times"], dtype=float)
    kind = case["kind"]
    detail = f"case={case}"
    vals = {}
    for rep in ("IDENDITY", "LOG"):
        u = _make_underlying(case)
        try:
            if case.get("via_product"):
                from rpylib.product.payoff import Forward
                from rpylib.product.product import Product

                prod = Product(payoff_underlying=u, payoff=Forward(strike=0.0), maturity=float(times[-1]))
                prod.update(_rep(rep))
                v = prod.underlying_value(times, _arr(p, "path", rep), _arr(p, "jump", rep))
            else:
                u.update(_rep(rep))
                v = u.value(times, _arr(p, "path", rep), _arr(p, "jump", rep))
        except Exception as e:  # noqa: BLE001
            out.append(Violation(f"C17/underlying/{kind}/{rep.lower()}-representation-raises/{type(e).__name__}",
                                 f"{e!r}; {detail}"))
            return out
        vals[rep] = np.asarray(v, dtype=float)
    a, b = vals["IDENDITY"], vals["LOG"]
    if a.shape != b.shape or not np.allclose(a, b, rtol=1e-9, atol=1e-9, equal_nan=True):
        out.append(Violation(f"C17/underlying/{kind}/identity-and-log-representations-differ", f"{a} vs {b}; {detail}"))
        return out
    S = np.array(p["path"], dtype=float)
    J = np.array(p["jump"], dtype=float)
    # reference values
    if kind in ("spot", "libors"):
        ref = S[:, -1] if case["d"] > 1 else S[0, -1]
    elif kind == "logspot":
        ref = np.log(S[:, -1]) if case["d"] > 1 else math.log(S[0, -1])
    elif kind == "asian":
        if not (S.min() - 1e-9 <= float(a) <= S.max() + 1e-9):
            out.append(Violation("C17/underlying/asian/average-outside-the-path-range", f"{a} not in [{S.min()},{S.max()}]; {detail}"))
        # time-weighted average over [0, t_n] of the right-continuous step path (S(t_0) on [0, t_0])
        ref = float(np.sum(S[0] * np.diff(times, prepend=0.0)) / times[-1])
    elif kind == "mean":
        ref = float(S[:, -1].mean())
    elif kind == "performances":
        ref = S[:, -1] / np.array(case["spots"])
    elif kind == "maxperf":
        ref = float((S[:, -1] / np.array(case["spots"])).max())
    elif kind == "nthspot":
        ref = float(S[case["index"] - 1, -1])
    elif kind == "indicators":
        ref = np.array([1.0 if np.all(S[:, -1] > np.array(case["thresholds"])) else 0.0])
    else:
        def first_default(j, level):
            r = np.diff(np.log(j))
            idx = np.nonzero(r < level)[0]
            return float(times[idx[0] + 1]) if len(idx) else math.inf

        taus = [first_default(J[k], case["levels"][k]) for k in range(case["d"])]
        if kind == "defaulttime":
            ref = taus[0]
        elif kind == "defaulttime-nth":
            ref = taus[case["index"] - 1]
        else:
            ref = sorted(taus)[case["index"] - 1]
            # non-decreasing in n
            from rpylib.product.underlying import NthDefaultTimes

            seq = []
            for n in range(1, case["d"] + 1):
                un = NthDefaultTimes(case["levels"], n)
                seq.append(float(un.value(times, S, J)))
            if any(y < x for x, y in zip(seq, seq[1:])):
                out.append(Violation("C17/underlying/nth-default/not-non-decreasing-in-n", f"{seq}; {detail}"))
    if not np.allclose(a, np.asarray(ref, dtype=float), rtol=1e-9, atol=1e-9, equal_nan=True):
        out.append(Violation(f"C17/underlying/{kind}/differs-from-its-definition", f"{a} vs reference {ref}; {detail}"))
    return out


def classify_underlying(case):
    return [case["kind"], f"d={case['d']}"], True


# ------------------------------------------------------------------------------------ static identities
@st.composite
def strat_identities(draw, tier):
    ks = sorted({draw(_f(10.0, 300.0)) for _ in range(3)})
    while len(ks) < 3:
        ks.append(ks[-1] * 1.3)
    return {"x": draw(st.one_of(_f(1.0, 400.0), st.sampled_from(ks))), "ks": ks, "notional": draw(_f(0.01, 1000.0)),
            "vec": [draw(_f(10.0, 300.0)) for _ in range(draw(st.integers(1, 4)))], "path": draw(_path()),
            "barrier": draw(_f(20.0, 200.0)), "bt": draw(st.sampled_from(["DOWN", "UP"]))}


def body_identities(case):
    from rpylib.product.payoff import (Barrier, BarrierType, Butterfly, CallSpread, Digital, Forward, PayoffType, Vanilla)
    from rpylib.product.product import Product
    from rpylib.product.underlying import Spot

    out = []
    x = case["x"]
    k1, k2, k3 = case["ks"]
    detail = f"case={ {k: v for k, v in case.items() if k != 'path'} }"
    call = lambda k: float(Vanilla(strike=k, payoff_type=PayoffType.CALL)(x))  # noqa: E731
    put = lambda k: float(Vanilla(strike=k, payoff_type=PayoffType.PUT)(x))  # noqa: E731
    tol = 1e-12 * (abs(x) + k3)
    if abs(call(k1) - put(k1) - float(Forward(strike=k1)(x))) > tol:
        out.append(Violation("C17/identity/call-minus-put-is-not-forward", detail))
    cs = float(CallSpread(strike1=k1, strike2=k2)(x))
    if abs(cs - (call(k1) - call(k2))) > tol or cs < 0:
        out.append(Violation("C17/identity/call-spread", f"{cs} vs {call(k1) - call(k2)}; {detail}"))
    bf = float(Butterfly(strike1=k1, strike2=k2, strike3=k3)(x))
    if abs(bf - (call(k1) - 2 * call(k2) + call(k3))) > tol:
        out.append(Violation("C17/identity/butterfly", f"{bf}; {detail}"))
    # non-negative whenever the call combination is (body at or above the mid-point of the wings: 2 k2 >= k1 + k3); for a
    # body below the mid-point the documented combination is negative beyond 2 k2 - k1 and "equals its call
    # combination" is the clause that can hold
    if 2 * k2 >= k1 + k3 and bf < -tol:
        out.append(Violation("C17/identity/symmetric-butterfly-negative", f"{bf}; {detail}"))
    dc = float(Digital(strike=k1, payoff_type=PayoffType.CALL)(x))
    dp = float(Digital(strike=k1, payoff_type=PayoffType.PUT)(x))
    if dc + dp != 1.0 or dc not in (0.0, 1.0):
        out.append(Violation("C17/identity/digital-call-plus-put", f"{dc}+{dp}; {detail}"))
    vec = np.asarray(Vanilla(strike=case["vec"], payoff_type=PayoffType.CALL)(x), dtype=float)
    if not np.allclose(vec, [call(k) for k in case["vec"]], rtol=0, atol=tol):
        out.append(Violation("C17/identity/vector-strikes", f"{vec}; {detail}"))
    # notional scales linearly
    pr = Product(payoff_underlying=Spot(), payoff=Vanilla(strike=k1, payoff_type=PayoffType.CALL), maturity=1.0, notional=case["notional"])
    if abs(float(pr(x)) - case["notional"] * call(k1)) > 1e-12 * case["notional"] * (abs(x) + k1):
        out.append(Violation("C17/identity/notional-not-linear", detail))
    # knock-in + knock-out = vanilla on the same path (fresh objects and one reused pair)
    p = case["path"]
    times = np.array(p["times"], dtype=float)
    S = np.array(p["path"][0], dtype=float)
    kin = BarrierType.DOWN_AND_IN if case["bt"] == "DOWN" else BarrierType.UP_AND_IN
    kout = BarrierType.DOWN_AND_OUT if case["bt"] == "DOWN" else BarrierType.UP_AND_OUT
    pin = Product(Spot(), Barrier(k1, PayoffType.CALL, kin, case["barrier"]), maturity=times[-1])
    pout = Product(Spot(), Barrier(k1, PayoffType.CALL, kout, case["barrier"]), maturity=times[-1])
    for rnd, path in enumerate((S, S[::-1].copy() * 0 + S.mean(), S)):
        vi = float(pin(pin.underlying_value(times, path, path)))
        vo = float(pout(pout.underlying_value(times, path, path)))
        van = max(float(path[-1]) - k1, 0.0)
        # each leg against its definition from the path's extremes (the payoff knocks strictly beyond the barrier)
        hit = bool(np.any(path < case["barrier"])) if case["bt"] == "DOWN" else bool(np.any(path > case["barrier"]))
        if abs(vi - (van if hit else 0.0)) > tol or abs(vo - (0.0 if hit else van)) > tol:
            out.append(Violation("C17/identity/barrier-leg-differs-from-its-definition" + ("/reused-objects" if rnd else ""),
                                 f"round {rnd}: knock-in {vi}, knock-out {vo}, vanilla {van}, barrier "
                                 f"{'crossed' if hit else 'not crossed'} ({case['bt']} {case['barrier']}) path {path.tolist()}; {detail}"))
            break
        if abs(vi + vo - van) > tol:
            out.append(Violation("C17/identity/knock-in-plus-knock-out-is-not-vanilla" + ("/reused-objects" if rnd else ""),
                                 f"round {rnd}: {vi}+{vo} vs {van}; barrier {case['barrier']} path {path.tolist()}; {detail}"))
            break
    return out


def classify_identities(case):
    S = case["path"]["path"][0]
    crosses = (min(S) < case["barrier"]) if case["bt"] == "DOWN" else (max(S) > case["barrier"])
    labels = ["barrier-crossed" if crosses else "barrier-not-crossed", f"vec={len(case['vec'])}"]
    if case["x"] in case["ks"]:
        labels.append("at-the-strike")
    return labels, crosses or len(case["vec"]) > 1


# ------------------------------------------------------------------------------------ histories on one underlying
@st.composite
def strat_underlying_history(draw, tier):
    case = draw(strat_underlying(tier))
    n = len(case["path"]["times"])
    case["paths"] = [case.pop("path")] + [draw(_path(n=n, d=case["d"])) for _ in range(draw(st.integers(1, 3)))]
    ops = draw(st.lists(st.one_of(st.tuples(st.just("eval"), st.integers(0, len(case["paths"]) - 1)),
                                  st.tuples(st.just("update"), st.sampled_from(["LOG", "IDENDITY"]))),
                        min_size=3, max_size=12))
    case["ops"] = [list(o) for o in ops]
    return case


def body_underlying_history(case):
    """one underlying object valued on a sequence of paths (and switched between representations): every value equals
    the one a fresh object gives for that path alone"""
    u = _make_underlying(case)
    holder = u
    if case.get("via_product"):  # the history runs through a product holding the underlying (fresh objects do not)
        from rpylib.product.payoff import Forward
        from rpylib.product.product import Product

        holder = Product(payoff_underlying=u, payoff=Forward(strike=0.0), maturity=float(case["paths"][0]["times"][-1]))
    rep = "IDENDITY"
    kind = case["kind"]
    for step, (op, arg) in enumerate(case["ops"]):
        if op == "update":
            holder.update(_rep(arg))
            rep = arg
            continue
        p = case["paths"][arg]
        times = np.array(p["times"], dtype=float)
        value = holder.underlying_value if holder is not u else u.value
        got = np.array(value(times, _arr(p, "path", rep), _arr(p, "jump", rep)), dtype=float)
        fresh = _make_underlying(case)
        fresh.update(_rep(rep))
        exp = np.array(fresh.value(times, _arr(p, "path", rep), _arr(p, "jump", rep)), dtype=float)
        if got.shape != exp.shape or not np.array_equal(got, exp, equal_nan=True):
            return [Violation(f"C17/underlying-history/{kind}/value-depends-on-earlier-evaluations-or-switches",
                              f"step {step}: path {arg} in {rep} representation valued {got} after the history, {exp} by a "
                              f"fresh object; kind={kind} d={case['d']} ops={case['ops']} levels={case['levels']} "
                              f"index={case['index']} paths={case['paths']}")]
    return []


def classify_underlying_history(case):
    ops = [o[0] for o in case["ops"]]
    evals = [o[1] for o in case["ops"] if o[0] == "eval"]
    labels = [case["kind"], f"d={case['d']}"]
    if len(set(evals)) >= 2:
        labels.append("several-paths")
    if "update" in ops and "eval" in ops[ops.index("update"):]:
        labels.append("switch-then-evaluate")
    return labels, len(set(evals)) >= 2



# ------------------------------------------------------------------------------------ rainbow on a multi-asset path
@st.composite
def strat_rainbow(draw, tier):
    d = draw(st.integers(2, 4))
    w = [draw(_f(0.05, 1.0)) for _ in range(d)]
    tot = sum(w)
    return {"d": d, "weights": [float(f"{x / tot:.6g}") for x in w], "strike": draw(_f(0.5, 1.5)),
            "type": draw(st.sampled_from(["CALL", "PUT"])), "und": draw(st.sampled_from(["spot", "performances"])),
            "rep": draw(st.sampled_from(["IDENDITY", "LOG"])), "spots0": [draw(_f(20.0, 200.0)) for _ in range(d)],
            "terminal": [draw(_f(0.3, 2.5)) for _ in range(d)], "mid": [draw(_f(0.5, 1.5)) for _ in range(d)],
            "notional": draw(st.sampled_from([1.0, 2.0, 0.01]))}


def body_rainbow(case):
    from rpylib.product.payoff import Forward, PayoffType, Rainbow
    from rpylib.product.product import Product
    from rpylib.product.underlying import NthSpot, Performances, Spot

    out = []
    d = case["d"]
    s0 = np.array(case["spots0"], dtype=float)
    spot_path = np.array([s0, s0 * np.array(case["mid"]), s0 * np.array(case["terminal"])]).T  # (d, 3)
    rep = _rep(case["rep"])
    path = np.log(spot_path) if case["rep"] == "LOG" else spot_path.copy()
    times = np.array([0.0, 0.5, 1.0])
    detail = f"case={case}"
    if case["und"] == "performances":
        und, vec = Performances(spots=s0), spot_path[:, -1] / s0
        strike = case["strike"]
    else:
        und, vec = Spot(), spot_path[:, -1].copy()
        strike = case["strike"] * float(np.mean(s0))
    eps = 1.0 if case["type"] == "CALL" else -1.0
    # weights are given from the best to the worst performer
    ref = max(0.0, eps * (float(np.dot(np.sort(vec)[::-1], case["weights"])) - strike)) * case["notional"]
    prod = Product(payoff_underlying=und, payoff=Rainbow(weights=list(case["weights"]), strike=strike, payoff_type=PayoffType[case["type"]]),
                   maturity=1.0, notional=case["notional"])
    prod.update(rep)
    others = [Product(payoff_underlying=NthSpot(k + 1), payoff=Forward(strike=0.0), maturity=1.0) for k in range(d)]
    for o in others:
        o.update(rep)
    keep = path.copy()
    tol = 1e-12 * (abs(ref) + abs(strike) + float(np.max(vec))) * max(case["notional"], 1.0)
    for rnd in range(2):
        u = prod.underlying_value(times, path, path)
        u_keep = np.array(u, dtype=float).copy()
        val = float(np.asarray(prod(u), dtype=float))
        if abs(val - ref) > tol:
            out.append(Violation("C17/rainbow/value-differs-from-the-weighted-ranked-performances" + ("/second-evaluation" if rnd else ""),
                                 f"{val!r} vs {ref!r}; {detail}"))
            return out
        if not np.array_equal(np.asarray(u, dtype=float), u_keep):
            out.append(Violation("C17/rainbow/underlying-vector-changed-by-the-evaluation",
                                 f"{np.asarray(u).tolist()} was {u_keep.tolist()}; {detail}"))
            return out
        if not np.array_equal(path, keep):
            out.append(Violation("C17/rainbow/path-changed-by-the-evaluation", f"{path.tolist()} was {keep.tolist()}; {detail}"))
            return out
        # products evaluated on the same path afterwards see the assets where they were
        for k, o in enumerate(others):
            v = float(np.asarray(o(o.underlying_value(times, path, path)), dtype=float))
            if abs(v - spot_path[k, -1]) > 1e-12 * spot_path[k, -1]:
                out.append(Violation("C17/rainbow/later-product-on-the-same-path-reads-another-asset",
                                     f"asset {k + 1}: {v!r} vs {spot_path[k, -1]!r}; {detail}"))
                return out
    return out


def classify_rainbow(case):
    ordered = all(a <= b for a, b in zip(case["terminal"], case["terminal"][1:]))
    return [case["und"], case["rep"], f"d={case['d']}", "already-ordered" if ordered else "not-ordered"], not ordered


SUBCHECKS = [
    SubCheck("histories-on-one-product", body_history, classify_history,
             rule="operation lists (evaluate path i, switch to LOG / IDENTITY) over one Product (four barrier types, "
                  "vanilla, forward, digital, call spread, Asian call, CDS on a default time): every evaluation equals a "
                  "fresh product's in the current representation and repeats; non-trivial = >= 2 evaluations with a "
                  "barrier product or an evaluation after a switch",
             strategy=strat_history, budget={"quick": 4800, "thorough": 30000},
             essential_labels=("switch-then-evaluate", "log-then-identity")),
    SubCheck("underlyings-in-both-representations", body_underlying, classify_underlying,
             rule="every underlying class on generated positive paths (1-3 assets, 2..12 points): value in identity "
                  "representation = value on the logarithms in log representation = harness definition (average, "
                  "performances, default times by a reference scan, n-th default non-decreasing in n)",
             strategy=strat_underlying, budget={"quick": 4800, "thorough": 30000}),
    SubCheck("static-identities", body_identities, classify_identities,
             rule="strikes, underlying values (incl. exactly at a strike), notionals, vector strikes, barrier paths: "
                  "call-put=forward, call spread and butterfly vs call combinations, digital call+put=1, KI+KO=vanilla "
                  "(fresh and reused objects), notional linear; non-trivial = barrier crossed or vector strikes",
             strategy=strat_identities, budget={"quick": 4800, "thorough": 30000}),
    SubCheck("rainbow-on-a-multi-asset-path", body_rainbow, classify_rainbow,
             rule="rainbow call/put on Spot or Performances of 2..4 assets, both representations: value vs the weighted "
                  "ranked terminal values, evaluated twice; the vector handed to the payoff and the path are unchanged, and "
                  "single-asset products evaluated afterwards on the same path read their own asset; non-trivial = "
                  "terminal values not already in increasing order",
             strategy=strat_rainbow, budget={"quick": 480, "thorough": 2400}, shards={"quick": 16, "thorough": 16}),
    SubCheck("histories-on-one-underlying", body_underlying_history, classify_underlying_history,
             rule="every underlying class (incl. multi-name default times, n-th default, performances, indicators) as one "
                  "object valued on a generated sequence of 2..4 paths with representation switches in between: each "
                  "value bitwise equal to that of a fresh object; non-trivial = at least two different paths",
             strategy=strat_underlying_history, budget={"quick": 6000, "thorough": 30000}, shards={"quick": 16, "thorough": 16}),
]
