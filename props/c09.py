"""C09 - closed-form Levy-measure integrals equal integrals of the model's own density.

Oracle: harness quadrature of x^n * nu(x) (vlib.oracles.nu_integral), additivity over a generated split
point, sign rules, and "truncated = integral over the intersection".
"""
from __future__ import annotations

import math

import numpy as np
from hypothesis import strategies as st

from vlib.core import SubCheck, Violation
from vlib.models import activity, branch_of, build_model, model_spec, quad_hints
from vlib.oracles import nu_integral

PROPERTY_ID = "C09"
INF = float("inf")
ASSUMPTIONS = [
    "interval end points have magnitude in [1e-4, 20] or are 0 / infinite; n <= 6",
    "tolerance = 1e-7*integral|x^n nu| over the interval + 1e-10*tail integral from the end point nearest "
    "to zero (cancellation in antiderivative differences); where the implementation itself calls scipy.quad "
    "at default accuracy (generic n>=3 moments, CGMY one-sided second moment) 1e-6 relative + 3e-8 absolute",
]

INTERVAL_CLASSES = ["(-inf,b<0]", "[a<0,b<0]", "[a,0]", "straddling", "[0,b]", "[a>0,b]", "[a>0,inf)",
                    "(-inf,inf)", "(-inf,b>0]", "[a<0,inf)"]


def _mag():
    return st.floats(min_value=-4.0, max_value=1.3).map(lambda e: float(f"{10.0 ** e:.4g}"))


@st.composite
def strat_case(draw, tier):
    spec = draw(model_spec(exp=False))
    # a quarter of the models get their parameters through the update protocol (assign every parameter, initialisation())
    spec["route"] = draw(st.sampled_from(["direct", "direct", "direct", "updated"]))
    n = draw(st.sampled_from([0, 0, 1, 1, 2, 2, 3, 4, 5, 6]))
    fa, fv = activity(spec)
    zero_ok = (n >= 2) or (n == 1 and fv) or (n == 0 and fa)
    classes = [c for c in INTERVAL_CLASSES
               if zero_ok or c in ("(-inf,b<0]", "[a<0,b<0]", "[a>0,b]", "[a>0,inf)")]
    cls = draw(st.sampled_from(classes))
    x1, x2 = sorted([draw(_mag()), draw(_mag())])
    if x1 == x2:
        x2 = x1 * 2
    # intervals that are thin next to where they lie (the cells of a very fine grid far from the origin)
    if draw(st.integers(0, 11)) == 0:
        x2 = float(f"{x1 * (1.0 + draw(st.sampled_from([1e-6, 1e-7]))):.12g}")
    # end points written as python integers (the library itself writes 1 and -1 for the cut-offs of its representations)
    int_ends = draw(st.integers(0, 9)) == 0
    if int_ends:
        x1 = draw(st.integers(1, 3))
        x2 = x1 + draw(st.integers(1, 3))
    a, b = {
        "(-inf,b<0]": (-INF, -x1), "[a<0,b<0]": (-x2, -x1), "[a,0]": (-x1, 0 if int_ends else 0.0), "straddling": (-x1, x2),
        "[0,b]": (0 if int_ends else 0.0, x2), "[a>0,b]": (x1, x2), "[a>0,inf)": (x1, INF), "(-inf,inf)": (-INF, INF),
        "(-inf,b>0]": (-INF, x2), "[a<0,inf)": (-x1, INF),
    }[cls]
    if cls == "straddling" and draw(st.booleans()):
        a, b = -x2, x1
    # split point strictly inside (a, b); may be exactly 0 where 0 is interior
    lo = a if math.isfinite(a) else (min(b, 0.0) - 20.0)
    hi = b if math.isfinite(b) else (max(a, 0.0) + 20.0)
    frac = draw(st.floats(min_value=0.05, max_value=0.95))
    split = lo + frac * (hi - lo)
    if a < 0 < b and draw(st.booleans()):
        split = 0.0
    split = float(f"{split:.6g}")
    if not (a < split < b):
        split = None
    # truncation interval: None, or [l, r] with l < 0 < r (what truncate_levy_measure receives from grids)
    trunc = None
    if draw(st.booleans()):
        trunc = [-draw(_mag()), draw(_mag())]
        # one-sided restrictions (only upward or only downward jumps kept): a bound exactly at zero
        side = draw(st.integers(0, 11))
        if side == 0:
            trunc[0] = 0.0
        elif side == 1:
            trunc[1] = 0.0
    # a second truncation applied on top of the first (a pre-truncated model truncated again by a chain): the result
    # is the restriction to the intersection, whether the second interval is nested in the first or not
    trunc2 = None
    if trunc is not None and draw(st.integers(0, 2)) == 0:
        trunc2 = [-draw(_mag()), draw(_mag())]
    return {"model": spec, "n": n, "cls": cls, "a": a, "b": b, "split": split, "trunc": trunc, "trunc2": trunc2}


def _entry_points(nu, n):
    eps = []
    if n == 0:
        eps.append(("integrate", lambda a, b: nu.integrate(a, b)))
    if n == 1:
        eps.append(("integrate_against_x", lambda a, b: nu.integrate_against_x(a, b)))
    if n == 2:
        eps.append(("integrate_against_xx", lambda a, b: nu.integrate_against_xx(a, b)))
    eps.append((f"integrate_against_xn", lambda a, b: nu.integrate_against_xn(a, b, n)))
    return eps


def _uses_default_quad(spec, n, entry, a, b):
    """True where the implementation itself falls back to scipy.quad at default accuracy."""
    fam = spec["family"]
    if fam == "vg":
        return False
    if n >= 3:
        return True
    if fam == "cgmy" and n == 2 and not (a < 0 < b):
        return True
    return False


def _is_scipy_default_quad_result(dens, a, b, n, val):
    """True iff `val` is what scipy.quad at default settings returns for x^n*dens on [a,b] split at zero
    (the documented behaviour of the generic fallback), i.e. the implementation is not to blame beyond
    its choice of scipy.quad."""
    import warnings

    from scipy.integrate import quad

    pieces = [(a, 0.0), (0.0, b)] if a < 0 < b else [(a, b)]
    tot = 0.0
    with warnings.catch_warnings():
        warnings.simplefilter("ignore")
        for lo, hi in pieces:
            tot += quad(lambda x: x ** n * float(dens(x)), lo, hi)[0]
    return bool(np.isfinite(val)) and abs(tot - val) <= 1e-9 * max(abs(tot), abs(val)) + 1e-300


def _tail_scale(nu, a, b, n, hints):
    """integral of |x^n nu| from the end point nearest to zero outwards (size of the antiderivatives)."""
    tot = 0.0
    if b > 0:
        lo = max(a, 0.0)
        if lo > 0 or n >= 1:
            _, s, _ = nu_integral(nu, lo, INF, n, hints)
            tot += s if np.isfinite(s) else 0.0
    if a < 0:
        hi = min(b, 0.0)
        if hi < 0 or n >= 1:
            _, s, _ = nu_integral(nu, -INF, hi, n, hints)
            tot += s if np.isfinite(s) else 0.0
    return tot


def _jsonable(x):
    return x


def body(case):
    out = []
    # (end points keep the type they were written in: python integers stay integers)
    spec, n = case["model"], case["n"]
    a, b = (v if isinstance(v, int) and not isinstance(v, bool) else float(v) for v in (case["a"], case["b"]))
    model = build_model(spec)
    base_nu = model.levy_triplet.nu
    hints = quad_hints(spec)
    br = branch_of(spec)
    cls = case["cls"]

    def compare(nu_obj, dens, aa, bb, kind, interval_for_ref=None):
        ra, rb = interval_for_ref if interval_for_ref else (aa, bb)
        if ra >= rb:
            ref, scale, tail = 0.0, 0.0, 0.0
        else:
            ref, scale, _ = nu_integral(dens, ra, rb, n, hints)
            if not np.isfinite(ref):
                return  # not integrable on this interval: outside the property's domain
            tail = _tail_scale(dens, ra, rb, n, hints)
        for name, fn in _entry_points(nu_obj, n):
            key = f"C09/{br}/{kind}/{name}/n={min(n, 3)}{'+' if n > 3 else ''}/{cls}"
            try:
                val = fn(aa, bb)
            except Exception as e:  # noqa: BLE001
                out.append(Violation(f"{key}/raises/{type(e).__name__}",
                                     f"{name}({aa},{bb},n={n}) raised {e!r}; quadrature gives {ref!r}; model={spec}"))
                continue
            try:
                val = float(val)
            except Exception:  # noqa: BLE001
                out.append(Violation(f"{key}/not-a-number", f"{name}({aa},{bb},n={n}) = {val!r}"))
                continue
            if _uses_default_quad(spec, n, name, aa, bb):
                tol = 1e-6 * scale + 3e-8
            else:
                tol = 1e-7 * scale + 1e-10 * tail + 1e-11
            # (a truncated measure hands the clipped interval to the fallback)
            if (not np.isfinite(val) or abs(val - ref) > tol) and _uses_default_quad(spec, n, name, aa, bb) \
                    and (_is_scipy_default_quad_result(dens, aa, bb, n, val) or
                         (ra < rb and _is_scipy_default_quad_result(dens, ra, rb, n, val))):
                # the fallback did integrate the right integrand over the right pieces; scipy.quad at its
                # default settings is what misses the mass (narrow bump on a wide interval)
                out.append(Violation("C09/quad-fallback/scipy-default-quad-misses-narrow-mass",
                                     f"{name}({aa},{bb},n={n}) = {val!r}; true integral {ref!r}; model={spec}"))
                continue
            if not np.isfinite(val) or abs(val - ref) > tol:
                out.append(Violation(f"{key}/differs-from-quadrature",
                                     f"{name}({aa},{bb},n={n}) = {val!r}; quadrature of x^n*nu = {ref!r} "
                                     f"(scale {scale:.3g}, tol {tol:.3g}); model={spec}"))
                continue
            # sign rules
            if n % 2 == 0 and val < -tol:
                out.append(Violation(f"{key}/negative-even-moment", f"{name}({aa},{bb},n={n}) = {val!r}"))
            if n % 2 == 1 and bb <= 0 and val > tol:
                out.append(Violation(f"{key}/sign-odd-moment-negative-half-line", f"{val!r}"))
            if n % 2 == 1 and aa >= 0 and val < -tol:
                out.append(Violation(f"{key}/sign-odd-moment-positive-half-line", f"{val!r}"))
            # additivity over the split point
            c = case["split"]
            if c is not None and aa < c < bb and kind == "plain":
                fa, fv = activity(spec)
                zero_ok = (n >= 2) or (n == 1 and fv) or (n == 0 and fa)
                if c != 0.0 or zero_ok:
                    try:
                        left, right = float(fn(aa, c)), float(fn(c, bb))
                    except Exception as e:  # noqa: BLE001
                        out.append(Violation(f"{key}/split-raises/{type(e).__name__}",
                                             f"{name} on [{aa},{c}] or [{c},{bb}] raised {e!r}; model={spec}"))
                        continue
                    tol2 = 2 * tol + 1e-9 * (abs(left) + abs(right))
                    if not abs(left + right - val) <= tol2 and _uses_default_quad(spec, n, name, aa, bb) \
                            and _is_scipy_default_quad_result(dens, aa, c, n, left) \
                            and _is_scipy_default_quad_result(dens, c, bb, n, right):
                        out.append(Violation("C09/quad-fallback/scipy-default-quad-misses-narrow-mass",
                                             f"{name}: [{aa},{c}] -> {left!r}, [{c},{bb}] -> {right!r}, "
                                             f"[{aa},{bb}] -> {val!r}; model={spec}"))
                        continue
                    if not abs(left + right - val) <= tol2:
                        out.append(Violation(f"{key}/not-additive",
                                             f"{name}: [{aa},{c}] -> {left!r}, [{c},{bb}] -> {right!r}, "
                                             f"[{aa},{bb}] -> {val!r}; model={spec}"))

    compare(base_nu, base_nu, a, b, "plain")

    if case["trunc"] is not None:
        from rpylib.model.levymodel.levymodel import TruncatedLevyMeasure

        l, r = case["trunc"]
        tnu = TruncatedLevyMeasure(base_nu, (l, r))
        ia, ib = max(a, l), min(b, r)
        compare(tnu, base_nu, a, b, "truncated", interval_for_ref=(ia, ib))
        # density vanishes outside the truncation interval and equals the base density inside
        for x in (l * 1.5 if l < 0 else -0.37, r * 1.5 if r > 0 else 0.37, l - 1e-9, r + 1e-9):
            if float(tnu(x)) != 0.0:
                out.append(Violation(f"C09/{br}/truncated/density-nonzero-outside",
                                     f"nu_trunc({x}) = {tnu(x)!r} with truncation {l, r}"))
        for x in (l * 0.5, r * 0.5):
            if x != 0.0 and float(tnu(x)) != float(base_nu(x)):
                out.append(Violation(f"C09/{br}/truncated/density-differs-inside",
                                     f"nu_trunc({x}) = {tnu(x)!r} vs nu = {base_nu(x)!r}"))
        sup = tnu.support()
        if tuple(float(v) for v in sup) != (float(l), float(r)):
            out.append(Violation(f"C09/{br}/truncated/support", f"support()={sup} truncation={(l, r)}"))
        if case.get("trunc2") is not None:
            l2, r2 = case["trunc2"]
            tnu2 = TruncatedLevyMeasure(tnu, (l2, r2))
            ll, rr = max(l, l2), min(r, r2)
            ia, ib = max(a, ll), min(b, rr)
            compare(tnu2, base_nu, a, b, "truncated-twice", interval_for_ref=(ia, ib))
            for x in (min(l, l2) * 1.5, max(r, r2) * 1.5, ll - 1e-9, rr + 1e-9):
                if float(tnu2(x)) != 0.0:
                    out.append(Violation(f"C09/{br}/truncated-twice/density-nonzero-outside-the-intersection",
                                         f"nu({x}) = {tnu2(x)!r} after truncations {l, r} then {l2, r2}"))
                    break
    return out


# ------------------------------------------------------------------------------------ far tails, exact reference
@st.composite
def strat_far(draw, tier):
    spec = draw(model_spec(families=("vg", "hem"), exp=False))
    spec["route"] = "direct"
    return {"model": spec, "n": draw(st.integers(0, 6)), "side": draw(st.sampled_from(["pos", "neg"])),
            "k": draw(st.floats(8.0, 60.0).map(lambda v: float(f"{v:.4g}"))),
            "width": draw(st.sampled_from([None, 0.01, 0.3, 2.0])),
            "truncated": draw(st.sampled_from([None, 1.5, 0.5]))}


def _exp_power_integral(c, alpha, p_, lo, hi):
    """c * integral_lo^hi x^(p_-1) exp(-alpha x) dx for 0 < lo < hi <= inf, p_ >= 0 (regularised incomplete gamma /
    exponential integral: accurate in relative terms however far the interval lies)"""
    from scipy.special import exp1, gamma, gammaincc

    if p_ == 0:
        return c * (float(exp1(alpha * lo)) - (float(exp1(alpha * hi)) if math.isfinite(hi) else 0.0))
    q = float(gammaincc(p_, alpha * lo)) - (float(gammaincc(p_, alpha * hi)) if math.isfinite(hi) else 0.0)
    return c * float(gamma(p_)) * alpha ** (-p_) * q


def body_far(case):
    from rpylib.model.levymodel.levymodel import TruncatedLevyMeasure

    out = []
    spec, n, pos = case["model"], case["n"], case["side"] == "pos"
    p_ = spec["params"]
    model = build_model(spec)
    nu = model.levy_triplet.nu
    if spec["family"] == "hem":
        alpha = p_["eta1"] if pos else p_["eta2"]
        c = p_["intensity"] * (p_["p"] if pos else 1.0 - p_["p"]) * alpha
        power = n + 1
    else:
        s2 = p_["sigma"] ** 2
        lp = math.sqrt(p_["theta"] ** 2 + 2 * s2 / p_["nu"]) / s2 - p_["theta"] / s2
        alpha = lp if pos else lp + 2 * p_["theta"] / s2
        c = 1.0 / p_["nu"]
        power = n
    if c <= 0.0:
        return [Violation("REJECTED", "no mass on that side")]
    # the re-typed density must be the library's (otherwise the harness is wrong, not the library)
    x0 = (1.0 if pos else -1.0) * 2.0 / alpha
    mine = c * math.exp(-alpha * abs(x0)) * (1.0 if spec["family"] == "hem" else 1.0 / abs(x0))
    if abs(float(nu(x0)) - mine) > 1e-9 * mine:
        from vlib.core import HarnessError

        raise HarnessError(f"re-typed density {mine} differs from the library's {float(nu(x0))} at {x0}: {spec}")
    lo = case["k"] / alpha
    hi = INF if case["width"] is None else lo * (1.0 + case["width"])
    if case["truncated"] is not None:
        r = lo * (1.0 + case["truncated"])
        nu = TruncatedLevyMeasure(nu, (-r, r))
        hi_ref = min(hi, r)
    else:
        hi_ref = hi
    sign = 1.0 if pos or n % 2 == 0 else -1.0
    ref = sign * _exp_power_integral(c, alpha, power, lo, hi_ref)
    tail = abs(_exp_power_integral(c, alpha, power, lo, INF))
    if ref == 0.0 or not math.isfinite(ref):
        return [Violation("REJECTED", "reference underflows")]
    a, b = (lo, hi) if pos else (-hi, -lo)
    br = branch_of(spec)
    for name, fn in _entry_points(nu, n):
        if name == "integrate_against_xn" and n >= 3 and spec["family"] == "hem":
            continue  # generic scipy.quad fallback at default accuracy (decided in the main sub-check)
        val = float(fn(a, b))
        tol = 1e-9 * abs(ref) + 1e-10 * tail
        if not math.isfinite(val) or abs(val - ref) > tol:
            out.append(Violation(f"C09/{br}/far-tail/{name}/n={min(n, 3)}{'+' if n > 3 else ''}/differs-from-closed-form",
                                 f"{name}({a},{b},n={n}) = {val!r}, closed form {ref!r} ({case['k']} decay lengths from zero, "
                                 f"tail integral {tail!r}); model={spec} truncated={case['truncated']}"))
    return out


def classify_far(case):
    k = case["k"]
    return [branch_of(case["model"]), f"n={case['n']}", case["side"], "half-line" if case["width"] is None else "finite",
            "k<20" if k < 20 else ("k<37" if k < 37 else "k>=37"),
            "truncated" if case["truncated"] else "untruncated"], k >= 20


def classify(case):
    spec, n, cls = case["model"], case["n"], case["cls"]
    br = branch_of(spec)
    labels = [br, f"n={n}", cls, ("truncated-twice" if case.get("trunc2") else "truncated") if case["trunc"] else "untruncated",
              "parameters-" + spec.get("route", "direct")]
    cut = False
    if case["trunc"]:
        l, r = case["trunc"]
        cut = (case["a"] < l < case["b"]) or (case["a"] < r < case["b"])
        if cut:
            labels.append("truncation-cuts-interval")
        if case["b"] <= l or case["a"] >= r:
            labels.append("truncation-disjoint")
    touches = cls not in ("[a<0,b<0]", "[a>0,b]")
    nt = touches or n >= 3 or br in ("cgmy/y<0", "cgmy/y=0", "cgmy/y=1") or cut
    return labels, nt


SUBCHECKS = [
    SubCheck("moments-vs-quadrature", body, classify,
             rule="family x parameters (five CGMY activity branches by construction) x n in 0..6 x ten interval "
                  "classes restricted to where the integral is finite x optional truncation x split point; "
                  "non-trivial = interval touches 0 or infinity, or n>=3, or y in {<0,0,1}, or truncation cuts "
                  "the interval; distinct = distinct case",
             strategy=strat_case, budget={"quick": 6400, "thorough": 60000},
             shards={"quick": 16, "thorough": 16},
             essential_labels=("cgmy/y=0", "cgmy/y=1", "cgmy/y<0", "straddling", "truncation-cuts-interval")),
    SubCheck("far-tails-vs-closed-form", body_far, classify_far,
             rule="HEM and VG (densities c*exp(-alpha|x|) and c*exp(-alpha|x|)/|x|) x n in 0..6 x side x interval starting "
                  "8..60 decay lengths from zero (half-line or finite, optionally through a truncated measure): every entry "
                  "point vs the incomplete-gamma / exponential-integral closed form of the re-typed density (checked "
                  "against the library's density), relative 1e-9 + 1e-10 of the tail integral from the nearer end point; "
                  "non-trivial = at least 20 decay lengths",
             strategy=strat_far, budget={"quick": 3200, "thorough": 20000}, shards={"quick": 16, "thorough": 16}),
]
