"""C08 - randomness discipline: seeded runs repeat; no two samples share random variates.

Histories = (engine, seed or none, amount of global RNG consumed before each run, simulation mode, number of
worker processes, number of paths, levels/passes).  The harness owns the *clock* read by
Configuration.initialisation_seed and spies on numpy.random.seed / random.seed; the OS scheduling of worker
processes is not owned (the configuration axis the property names is enumerated instead).
"""
from __future__ import annotations

import random as _pyrandom

import numpy as np
from hypothesis import strategies as st

from vlib.core import SubCheck, Violation
from vlib.mlmc_harness import build_engine, mlmc_case
from vlib.models import _f, build_model
from vlib.scripted import LEDGERS, new_ledger

PROPERTY_ID = "C08"
ASSUMPTIONS = [
    "worker scheduling is the operating system's: process counts and path counts are enumerated, interleavings are "
    "not; the clock read by initialisation_seed and every seed call are owned by the harness",
    "payoffs used here are continuous functions of the variates (forward on the spot, diffusion coefficient >= 0.05), "
    "so equal sample values mean shared variates",
]


class _SeedSpy:
    """records every numpy.random.seed / random.seed call together with the number of samples produced so far"""

    def __init__(self, clock_value=1_700_000_000.0, clock_step=0.0):
        self.calls = []
        self.samples = 0
        self.clock_value = clock_value
        self.clock_step = clock_step

    def __enter__(self):
        import rpylib.montecarlo.configuration as cfg

        self.cfg = cfg
        self._np_seed, self._py_seed, self._time = np.random.seed, cfg.random.seed, cfg.time
        spy = self

        def np_seed(v=None):
            spy.calls.append(("numpy", v, spy.samples))
            return spy._np_seed(v)

        class _Rnd:
            def __getattr__(self, name):
                return getattr(_pyrandom, name)

            @staticmethod
            def seed(v=None):
                spy.calls.append(("random", v, spy.samples))
                return _pyrandom.seed(v)

        class _Clock:
            @staticmethod
            def time():
                spy.clock_value += spy.clock_step
                return spy.clock_value

        np.random.seed = np_seed
        cfg.random = _Rnd()
        cfg.time = _Clock()
        return self

    def __exit__(self, *exc):
        np.random.seed = self._np_seed
        self.cfg.random = _pyrandom
        self.cfg.time = self._time
        return False

    def reseeded_after_samples(self):
        """seed values applied again after at least one sample was produced under that same value"""
        bad = []
        first_use = {}
        for kind, v, nsamples in self.calls:
            if kind != "numpy":
                continue
            if v is None:
                continue  # fresh operating-system entropy, not a state
            if v in first_use and nsamples > first_use[v]:
                bad.append((v, first_use[v], nsamples))
            first_use.setdefault(v, nsamples)
        return bad


def _consume(k):
    np.random.seed(424242)
    _pyrandom.seed(99)
    if k:
        np.random.random(k)
        for _ in range(k):  # the TABLE sampler draws from Python's generator: leave it in a different state as well
            _pyrandom.random()


# ------------------------------------------------------------------------------------ standard engine, real process
@st.composite
def strat_std(draw, tier):
    fam = draw(st.sampled_from(["bs", "merton", "hem"]))
    if fam == "bs":
        params = {"sigma": draw(_f(0.05, 0.5))}
    elif fam == "merton":
        params = {"sigma": draw(_f(0.05, 0.4)), "mu_j": draw(_f(0.0, 0.1)), "sigma_j": draw(_f(0.02, 0.3)),
                  "intensity": draw(_f(0.5, 8.0))}
    else:
        params = {"sigma": draw(_f(0.05, 0.4)), "p": draw(_f(0.1, 0.9)), "eta1": draw(_f(5.0, 40.0)),
                  "eta2": draw(_f(5.0, 40.0)), "intensity": draw(_f(0.5, 8.0))}
    return {"model": {"family": fam, "params": params, "exp": {"spot": draw(_f(10.0, 200.0)), "r": draw(_f(0.0, 0.08)),
                                                                "d": draw(_f(0.0, 0.05))}},
            "paths": draw(st.integers(4, 48)), "mode": draw(st.sampled_from(["fixed-dates", "jump-times"])),
            "seed": draw(st.sampled_from([None, 0, 7, 12345, 2 ** 31 - 1])), "prior": [draw(st.integers(0, 50)), draw(st.integers(51, 300))],
            "maturity": draw(_f(0.1, 2.0)), "clock_step": draw(st.sampled_from([0.0, 0.0, 0.4, 2.0]))}


def _std_product(case):
    from rpylib.product.payoff import CDS, Forward
    from rpylib.product.product import Product
    from rpylib.product.underlying import DefaultTime, Spot

    T = case["maturity"]
    if case["mode"] == "fixed-dates":
        return Product(payoff_underlying=Spot(), payoff=Forward(strike=1.0), maturity=T)
    r = 0.03
    return Product(payoff_underlying=DefaultTime(default_level=-0.05),
                   payoff=CDS(recovery_rate=0.4, spread=0.01, maturity=T, discounting=lambda t: np.exp(-r * t)), maturity=T)


def _run_std(case, prior, nb_of_processes=1, clock_step=0.0, clock_value=1_700_000_000.0):
    from rpylib.montecarlo.configuration import ConfigurationStandard
    from rpylib.montecarlo.standard.engine import Engine
    from rpylib.process.levyprocess import LevyProcess

    model = build_model(case["model"])
    proc = LevyProcess(model)
    count = {"n": 0}
    orig = proc.simulate_one_path
    config = ConfigurationStandard(mc_paths=case["paths"], seed=case["seed"], nb_of_processes=nb_of_processes)
    engine = Engine(configuration=config, process=proc)
    _consume(prior)
    if nb_of_processes != 1:
        # worker processes: nothing is patched (the closures are pickled); only the stored samples are observed
        stats = engine.price(_std_product(case))
        return np.array(stats._payoff_statistics.stats, dtype=float).ravel(), None, (0, 0)
    with _SeedSpy(clock_value=clock_value, clock_step=clock_step) as spy:
        def counted():
            spy.samples += 1
            return orig()

        proc.simulate_one_path = counted
        stats = engine.price(_std_product(case))
    sims = proc._path_simulation
    leftovers = (len(getattr(sims, "_brownian_increments", ())), len(getattr(sims, "_poisson_rv", ())))
    return np.array(stats._payoff_statistics.stats, dtype=float).ravel(), spy, leftovers


def body_std(case):
    out = []
    detail = f"case={case}"
    a, spy_a, left_a = _run_std(case, case["prior"][0], clock_step=case["clock_step"])
    # the second run also reads a different clock: a seeded run must not depend on it
    b, spy_b, left_b = _run_std(case, case["prior"][1], clock_step=case["clock_step"], clock_value=1_700_012_345.0)
    tag = f"C08/standard/{case['mode']}"
    if case["seed"] is not None and not np.array_equal(a, b):
        out.append(Violation(f"{tag}/same-seed-different-results",
                             f"seed={case['seed']}: first samples {a[:3]} vs {b[:3]} after consuming "
                             f"{case['prior'][0]} / {case['prior'][1]} variates beforehand; {detail}"))
    if case["seed"] is None:
        # a third run, unseeded like the first and started at the same clock reading (same second, same process): it must
        # not be re-seeded to the state that produced the first run's samples
        c, spy_c, _ = _run_std(case, case["prior"][1], clock_step=case["clock_step"])
        # (a payoff that does not depend on the variates - no jumps before the maturity - repeats anyway)
        if (len(np.unique(a)) > 1 and np.array_equal(a, c)) or [v for k_, v, _ in spy_a.calls if k_ == "numpy" and v is not None and
                                    any(k2 == "numpy" and v2 == v for k2, v2, _ in spy_c.calls)]:
            out.append(Violation(f"{tag}/unseeded-run-re-seeded-to-the-state-of-an-earlier-run",
                                 f"two unseeded runs started at the same clock reading: seed calls {spy_a.calls[:3]} and "
                                 f"{spy_c.calls[:3]}, first samples {a[:3]} vs {c[:3]}; {detail}"))
    for name, arr, spy, left in (("first", a, spy_a, left_a), ("second", b, spy_b, left_b)):
        if case["mode"] == "fixed-dates" and len(np.unique(arr)) != len(arr):
            out.append(Violation(f"{tag}/two-samples-share-their-variates",
                                 f"{name} run: {len(arr) - len(np.unique(arr))} repeated sample values among "
                                 f"{len(arr)}; {detail}"))
            break
        bad = spy.reseeded_after_samples()
        if bad:
            out.append(Violation(f"{tag}/re-seeded-to-a-state-that-already-produced-samples",
                                 f"{name} run: seed value {bad[0][0]} applied again after samples were produced "
                                 f"(calls {spy.calls[:6]}); {detail}"))
            break
        if case["mode"] == "fixed-dates" and any(left):
            out.append(Violation(f"{tag}/pre-drawn-variates-not-consumed-exactly-once",
                                 f"{name} run: {left} pre-drawn Brownian / Poisson rows left for {case['paths']} "
                                 f"paths; {detail}"))
            break
    return out


def classify_std(case):
    return [case["model"]["family"], case["mode"], "seeded" if case["seed"] is not None else "unseeded",
            f"clock_step={case['clock_step']}"], True


# ------------------------------------------------------------------------------------ pre-drawn variates of the fixed-date simulators
@st.composite
def strat_predrawn(draw, tier):
    from props import c03

    kind = draw(st.sampled_from(["levy-1d", "chain-1d", "coupling-1d", "chain-copula", "coupling-copula"]))
    dates = draw(st.sampled_from([{"T": 0.25, "asian": False}, {"T": 1.0, "asian": False}, {"T": 0.5, "asian": True},
                                  {"T": 1.0, "asian": True}]))
    def with_sigma():
        from vlib.models import FAMILIES

        fam = draw(st.sampled_from(["merton", "hem"]))
        params = draw(FAMILIES[fam]())
        params["sigma"] = draw(_f(0.05, 0.4))
        return {"family": fam, "exp": None, "params": params}

    if kind.endswith("copula"):
        case = draw(c03.strat_copula(tier))
        # at least one margin with a diffusion part (otherwise the Brownian rows do not show in the path)
        k = draw(st.integers(0, len(case["margins"]) - 1))
        if not any(m["params"].get("sigma") and m["family"] in ("merton", "hem") for m in case["margins"]):
            new = with_sigma()
            new["exp"] = case["margins"][k].get("exp")
            case["margins"][k] = new
    else:
        case = draw(c03.strat_1d(tier))
        if not (case["model"]["params"].get("sigma") and case["model"]["family"] in ("merton", "hem", "bs")):
            new = with_sigma()
            new["exp"] = case["model"].get("exp")
            case["model"] = new
    case.update({"kind": kind, "dates": dates, "paths": draw(st.integers(2, 6)), "seed": draw(st.sampled_from([3, 77]))})
    return case


def _time_axis(arr, nb):
    ax = [k for k, n in enumerate(arr.shape) if n == nb + 1]
    return ax[-1] if ax else None


def body_predrawn(case):
    import copy
    from collections import deque

    from props import c03
    from props.c01 import build_copula_grid
    from rpylib.distribution.sampling import SamplingMethod
    from rpylib.process.coupling.couplinglevycopula import CouplingProcessLevyCopula
    from rpylib.process.coupling.couplingmarkovchain import CouplingMarkovChain
    from rpylib.process.levyprocess import LevyProcess
    from rpylib.process.markovchain.markovchain import MarkovChainProcess
    from rpylib.process.markovchain.markovchainlevycopula import MarkovChainLevyCopula
    from vlib.grids import GridRejected, build_grid
    from vlib.models import build_copula_model

    out = []
    kind, n = case["kind"], case["paths"]
    product = c03._product_with_dates(case["dates"])
    tg = np.asarray(product.times_grid(), dtype=float)
    nb = len(tg) - 1
    sq = np.sqrt(np.diff(tg))
    coupled = kind.startswith("coupling")
    try:
        if kind.endswith("copula"):
            model = build_copula_model({"margins": case["margins"], "copula": case["copula"]})
            if not model.jump_of_finite_variation():
                return [Violation("REJECTED", "infinite-variation copula (constructor cost)")]
            grid = build_copula_grid(case, model)
            if int(np.prod([len(a) for a in grid.axes])) > (125 if coupled else 600):
                return [Violation("REJECTED", "level-0 grid outside the per-case bound")]
            method = SamplingMethod[case["method"]]
            obj = (CouplingProcessLevyCopula(levy_copula_model=model, grid=grid, method=method) if coupled
                   else MarkovChainLevyCopula(levy_copula_model=model, grid=grid, method=method))
        else:
            model = build_model(case["model"])
            if kind == "levy-1d":
                if case["model"]["family"] in ("cgmy", "vg"):
                    return [Violation("REJECTED", "no direct simulation of the jumps of this family")]
                obj = LevyProcess(model)
            else:
                grid = build_grid(case["grid"], model, case["model"])
                if len(grid.axes[0]) > 1200:
                    return [Violation("REJECTED", "axis outside the per-case bound")]
                method = SamplingMethod[case["method"]]
                obj = (CouplingMarkovChain(model=model, method=method, grid=grid) if coupled
                       else MarkovChainProcess(model=model, method=method, grid=grid))
    except GridRejected as e:
        return [Violation("REJECTED", str(e))]
    obj.initialisation(product)
    if coupled:
        obj.pre_computation(1, product)
        obj.next_level(1, [c03._PM(obj.fine_process.deterministic_path)], product)
    tag = f"C08/pre-drawn/{kind}"
    detail = f"dates={tg.tolist()} case={ {k: v for k, v in case.items() if k not in ('grid',)} }"
    ps = (obj.fine_process if coupled else obj)._path_simulation
    # the table of pre-drawn jump counts holds every Poisson variate that was drawn, once: numpy's Poisson sampler is
    # scripted for one pre-computation (successive integers from 65530 on: no two draws are equal, and the counts pass
    # 2^16 - a busy interval of a fine level); nothing is simulated from that table
    handed = []
    orig_poisson = np.random.poisson

    def scripted_poisson(lam=1.0, size=None):
        cnt = 1 if size is None else int(np.prod(size))
        vals = np.arange(65530 + len(handed), 65530 + len(handed) + cnt, dtype=np.int64)
        handed.extend(int(v) for v in vals)
        return vals[0] if size is None else vals.reshape(size)

    np.random.poisson = scripted_poisson
    try:
        obj.pre_computation(n, product)
    finally:
        np.random.poisson = orig_poisson
    if handed:
        table = [[int(v) for v in np.ravel(r)] for r in ps._poisson_rv]
        if len(table) != n or any(len(r) != nb for r in table) or sorted(v for r in table for v in r) != sorted(handed):
            out.append(Violation(f"{tag}/jump-count-table-is-not-the-drawn-poisson-variates-once-each",
                                 f"{len(handed)} variates drawn ({handed[:4]}..{handed[-2:]}), table of {len(table)} rows "
                                 f"{table[:3]}; {detail}"))
            return out
    np.random.seed(case["seed"])
    obj.pre_computation(n, product)
    rows = [np.asarray(r, dtype=float) for r in ps._brownian_increments]
    counts = [list(r) for r in ps._poisson_rv]
    if len(rows) != n or len(counts) != n:
        out.append(Violation(f"{tag}/not-one-pre-drawn-row-per-path", f"{len(rows)} Brownian and {len(counts)} Poisson rows "
                                                                   f"for {n} paths; {detail}"))
        return out
    if len({r.tobytes() for r in rows}) != n:
        out.append(Violation(f"{tag}/two-paths-share-their-pre-drawn-brownian-row", detail))
        return out
    # coefficient applied to the row: read from a second, freshly built object of the same kind where there is one
    if kind == "levy-1d":
        coefs = [np.atleast_2d(float(model.diffusion_coefficient()))]
    elif kind == "chain-1d":
        coefs = [np.atleast_2d(float(obj.equivalent_diffusion_coefficient))]
    elif kind == "coupling-1d":
        coefs = [np.atleast_2d(float(obj.equivalent_diffusion_coefficient_fine)),
                 np.atleast_2d(float(obj.equivalent_diffusion_coefficient_coarse))]
    elif kind == "chain-copula":
        coefs = [np.asarray(ps.diffusion_matrix, dtype=float)]
    else:
        coefs = [np.asarray(obj._diffusion_matrix_h, dtype=float), np.asarray(obj._diffusion_matrix_2h, dtype=float)]
    if not any(np.abs(c).max() > 0 for c in coefs):
        return [Violation("REJECTED", "no diffusion part: the Brownian rows do not show in the path")]
    out.append(Violation("NONTRIVIAL"))
    sim = obj.simulate_one_path_with_coupling if coupled else obj.simulate_one_path
    for i in range(n):
        path = sim()
        left = (len(ps._brownian_increments), len(ps._poisson_rv))
        if left != (n - i - 1, n - i - 1):
            out.append(Violation(f"{tag}/pre-drawn-rows-not-popped-once-per-path",
                                 f"after path {i}: {left} rows left of {n}; {detail}"))
            return out
        diff = np.asarray(path.diffusion_path, dtype=float)
        ax = _time_axis(diff, nb)
        if ax is None:
            out.append(Violation(f"{tag}/diffusion-path-shape", f"{diff.shape} for {nb} intervals; {detail}"))
            return out
        inc = np.moveaxis(np.diff(diff, axis=ax), ax, -1)  # (..., nb)
        comps = inc.reshape((len(coefs), -1, nb)) if coupled else inc.reshape((1, -1, nb))
        w = rows[i].reshape(-1, nb)
        for c, comp in zip(coefs, comps):
            expect = (c @ w) * sq
            if comp.shape != expect.shape or not np.allclose(comp, expect, rtol=1e-10, atol=1e-14 * max(1.0, np.abs(expect).max())):
                out.append(Violation(f"{tag}/path-not-driven-by-its-own-pre-drawn-row",
                                     f"path {i}: diffusion increments {comp.tolist()} vs coefficient x row {i} x sqrt(dt) "
                                     f"{expect.tolist()}; {detail}"))
                return out
    return out


def classify_predrawn(case):
    d = case["dates"]
    return [case["kind"], "monthly-asian" if d["asian"] else f"T={d['T']}", f"paths={case['paths']}"], False


def enum_large_predraw(tier):
    # one pass whose pre-drawn normals number more than 2^21 (weekly / daily averages of tens of thousands of paths)
    cases = [{"paths": 42000, "disc": "WEEKLY", "T": 1.0}]
    if tier != "quick":
        cases += [{"paths": 6100, "disc": "DAILY", "T": 1.0}, {"paths": 90000, "disc": "MONTHLY", "T": 2.0},
                  {"paths": 130000, "disc": "WEEKLY", "T": 0.5}]
    return cases


def body_large_predraw(case):
    from rpylib.process.levyprocess import LevyProcess
    from rpylib.product.payoff import Forward
    from rpylib.product.product import Product
    from rpylib.product.underlying import Asian, Discretisation

    model = build_model({"family": "bs", "params": {"sigma": 0.2}, "exp": {"spot": 100.0, "r": 0.02, "d": 0.0}})
    proc = LevyProcess(model)
    product = Product(payoff_underlying=Asian(Discretisation[case["disc"]]), payoff=Forward(strike=1.0), maturity=case["T"])
    proc.initialisation(product)
    np.random.seed(5)
    n = case["paths"]
    proc.pre_computation(n, product)
    rows = proc._path_simulation._brownian_increments
    nb = len(product.times_grid()) - 1
    out = [Violation("NONTRIVIAL")] if n * nb >= 2 ** 21 else []
    if len(rows) != n:
        return out + [Violation("C08/pre-drawn/large-pass/not-one-row-per-path", f"{len(rows)} rows for {n} paths; {case}")]
    first = np.array([r[0][0] for r in rows]) if isinstance(rows[0][0], (list, tuple, np.ndarray)) else np.array([r[0] for r in rows])
    last = np.array([np.ravel(r)[-1] for r in rows])
    if len(np.unique(first)) != n or len(np.unique(last)) != n:
        out.append(Violation("C08/pre-drawn/large-pass/two-paths-share-their-pre-drawn-brownian-row",
                             f"{n - len(np.unique(first))} repeated rows among {n} ({n * nb} normals); {case}"))
    return out


def classify_large_predraw(case):
    return [case["disc"], f"paths={case['paths']}"], False


# ------------------------------------------------------------------------------------ copula coupling: one uniform per projection
@st.composite
def strat_copula_uniforms(draw, tier):
    from props import c03

    case = draw(c03.strat_copula(tier))
    case.update({"paths": draw(st.integers(10, 30)), "seed": draw(st.sampled_from([3, 77, 2024])),
                 "dates": draw(st.sampled_from([{"T": 1.0, "asian": False}, {"T": 2.0, "asian": True}])),
                 "mode": draw(st.sampled_from(["fixed-dates", "jump-times"]))})
    return case


def body_copula_uniforms(case):
    from props import c03
    from props.c01 import build_copula_grid
    from rpylib.distribution.sampling import SamplingMethod
    from rpylib.process.coupling.couplinglevycopula import CouplingProcessLevyCopula
    from rpylib.product.payoff import PayoffDates
    from vlib.grids import GridRejected
    from vlib.models import build_copula_model

    model = build_copula_model({"margins": case["margins"], "copula": case["copula"]})
    if not model.jump_of_finite_variation():
        return [Violation("REJECTED", "infinite-variation copula (constructor cost)")]
    try:
        grid = build_copula_grid(case, model)
    except GridRejected as e:
        return [Violation("REJECTED", str(e))]
    if int(np.prod([len(a) for a in grid.axes])) > 125:
        return [Violation("REJECTED", "level-0 grid outside the per-case bound")]
    product = c03._product_with_dates(case["dates"])
    if case["mode"] == "jump-times":
        product.payoff.payoff_dates_type = PayoffDates.STOCHASTIC
    cp = CouplingProcessLevyCopula(levy_copula_model=model, grid=grid, method=SamplingMethod[case["method"]])
    cp.initialisation(product)
    cp.pre_computation(1, product)
    cp.next_level(1, [c03._PM(cp.fine_process.deterministic_path)], product)
    if float(cp.fine_process.intensity_of_jumps) * case["dates"]["T"] * case["paths"] > 4000:
        return [Violation("REJECTED", "too many jumps for the per-case budget")]
    np.random.seed(case["seed"])
    cp.pre_computation(case["paths"], product)
    drawn, odd = [], [0]
    uni = cp._uniform
    orig_sample = uni.sample

    def spy_sample(*a, **k):
        v = orig_sample(*a, **k)
        drawn.append(float(np.ravel(v)[0]))
        return v

    ps = cp.fine_process._path_simulation
    orig_chain = ps.simulate_markov_chain

    def spy_chain(*a, **k):
        mc = orig_chain(*a, **k)
        for sl in mc.states_increments:
            for inc in sl:
                if any(int(c) % 2 for c in np.ravel(inc)):
                    odd[0] += 1
        return mc

    uni.sample = spy_sample
    ps.simulate_markov_chain = spy_chain
    try:
        for _ in range(case["paths"]):
            cp.simulate_one_path_with_coupling()
    finally:
        uni.sample = orig_sample
        ps.simulate_markov_chain = orig_chain
    out = [Violation("NONTRIVIAL")] if odd[0] >= 10 else []
    detail = f"case={ {k: v for k, v in case.items() if k != 'grid'} }"
    if len(drawn) != odd[0] or len(set(drawn)) != len(drawn):
        out.append(Violation("C08/copula-coupling/not-one-fresh-uniform-per-projected-jump",
                             f"{odd[0]} fine jumps with an odd coordinate over {case['paths']} paths, {len(drawn)} coupling "
                             f"uniforms drawn ({len(set(drawn))} distinct); {detail}"))
    return out


def classify_copula_uniforms(case):
    return [f"d={len(case['margins'])}", case["mode"], case["copula"]["type"]], False


# ------------------------------------------------------------------------------------ multilevel engine, scripted
def strat_mlmc(tier):
    @st.composite
    def s(draw):
        case = draw(mlmc_case(tier, with_cv=False))
        case["seed"] = draw(st.sampled_from([None, 11, 98765]))
        case["prior"] = [draw(st.integers(0, 50)), draw(st.integers(51, 300))]
        case["clock_step"] = draw(st.sampled_from([0.0, 0.0, 0.4, 2.0]))
        case["max_samples"] = 6000
        return case

    return s()


def _run_mlmc(case, prior, clock_value=1_700_000_000.0):
    from vlib.scripted import PassBudgetExceeded

    key = f"c08-{id(case)}-{prior}"
    ledger = new_ledger(key)
    engine, product, _, _ = build_engine(case, key, mode="rng", seed=case["seed"])
    _consume(prior)
    status = "returned"
    with _SeedSpy(clock_value=clock_value, clock_step=case["clock_step"]) as spy:
        orig_values = type(engine.coupling_process)._values

        def counted(self, level):
            r = orig_values(self, level)
            spy.samples += 1
            return r

        type(engine.coupling_process)._values = counted
        try:
            if case["mode"] == "adaptive":
                engine.price(product, case["rmse"])
            else:
                engine.price_with_constant_mc_paths_and_level(product)
        except PassBudgetExceeded:
            status = "budget"
        finally:
            type(engine.coupling_process)._values = orig_values
            LEDGERS.pop(key, None)
    return ledger, spy, status


def body_mlmc(case):
    out = []
    detail = f"case={case}"
    led_a, spy_a, st_a = _run_mlmc(case, case["prior"][0])
    led_b, spy_b, st_b = _run_mlmc(case, case["prior"][1], clock_value=1_700_012_345.0)
    if "budget" in (st_a, st_b):
        return [Violation("INCONCLUSIVE", "sample budget")]
    tag = "C08/multilevel"
    if case["seed"] is not None and led_a.samples != led_b.samples:
        out.append(Violation(f"{tag}/same-seed-different-results",
                             f"seed={case['seed']}: level-0 samples {led_a.samples.get(0, [])[:2]} vs "
                             f"{led_b.samples.get(0, [])[:2]}; {detail}"))
    for name, led, spy in (("first", led_a, spy_a), ("second", led_b, spy_b)):
        allv = [v for l in sorted(led.variates) for v in led.variates[l]]
        if len(set(allv)) != len(allv):
            # where do the repeats sit?
            seen, where = {}, None
            for l in sorted(led.variates):
                for i, v in enumerate(led.variates[l]):
                    if v in seen:
                        where = (seen[v], (l, i))
                        break
                    seen[v] = (l, i)
                if where:
                    break
            out.append(Violation(f"{tag}/two-samples-share-their-variates",
                                 f"{name} run: {len(allv) - len(set(allv))} of {len(allv)} samples reuse the variates "
                                 f"of another sample, e.g. (level, index) {where[0]} and {where[1]}; {detail}"))
            break
        bad = spy.reseeded_after_samples()
        if bad:
            out.append(Violation(f"{tag}/re-seeded-to-a-state-that-already-produced-samples",
                                 f"{name} run: seed value {bad[0][0]} applied again after {bad[0][2]} samples "
                                 f"(first applied after {bad[0][1]}); {detail}"))
            break
    levels = len(led_a.samples)
    passes = sum(1 for e in led_a.events if e[0] == "precomp")
    out.append(Violation(f"LABEL:levels={levels}"))
    if passes > levels:
        out.append(Violation("LABEL:several-passes"))
        out.append(Violation("NONTRIVIAL"))
    return out


def classify_mlmc(case):
    return [case["mode"], "seeded" if case["seed"] is not None else "unseeded", f"clock_step={case['clock_step']}"], \
        case["seed"] is not None


# ------------------------------------------------------------------------------------ multilevel engine, real coupling
@st.composite
def strat_real(draw, tier):
    return {"params": {"sigma": draw(_f(0.05, 0.3)), "p": draw(_f(0.3, 0.7)), "eta1": draw(_f(8.0, 20.0)),
                       "eta2": draw(_f(8.0, 20.0)), "intensity": draw(_f(1.0, 4.0))},
            "levels": draw(st.integers(1, 2)), "paths": draw(st.integers(4, 10)), "seed": draw(st.sampled_from([5, 77])),
            "prior": [draw(st.integers(0, 50)), draw(st.integers(51, 300))], "maturity": draw(_f(0.3, 1.0)),
            "method": draw(st.sampled_from(["BINARYSEARCHTREEADAPTED1D", "INVERSION", "ALIAS", "TABLE", "TABLE", "BINARYSEARCHTREE",
                                            "HUFFMANNTREE"]))}


def _run_real(case, prior, clock_value=1_700_000_000.0):
    from rpylib.distribution.sampling import SamplingMethod
    from rpylib.grid.spatial import CTMCUniformGrid
    from rpylib.montecarlo.configuration import ConfigurationMultiLevel, ConvergenceRates
    from rpylib.montecarlo.multilevel.engine import Engine
    from rpylib.process.coupling.couplingmarkovchain import CouplingMarkovChain
    from rpylib.product.payoff import Forward
    from rpylib.product.product import Product
    from rpylib.product.underlying import Spot

    spec = {"family": "hem", "params": case["params"], "exp": {"spot": 100.0, "r": 0.02, "d": 0.0}}
    model = build_model(spec)
    grid = CTMCUniformGrid(h=0.05, model=model, truncation_probability=0.999)
    cp = CouplingMarkovChain(model=model, method=SamplingMethod[case["method"]], grid=grid)
    config = ConfigurationMultiLevel(convergence_rates=ConvergenceRates(1.0, 2.0, 1.0), initial_level=case["levels"],
                                     maximum_level=case["levels"], initial_mc_paths=case["paths"], seed=case["seed"],
                                     nb_of_processes=1)
    engine = Engine(configuration=config, coupling_process=cp)
    product = Product(payoff_underlying=Spot(), payoff=Forward(strike=100.0), maturity=case["maturity"])
    _consume(prior)
    with _SeedSpy(clock_value=clock_value) as spy:
        stats = engine.price_with_constant_mc_paths_and_level(product)
    fine = [np.array(stats.simulation_payoff_with_fine_process(l), dtype=float) for l in range(case["levels"] + 1)]
    coarse = [np.array(stats.simulation_payoff_with_coarse_process(l), dtype=float) for l in range(case["levels"] + 1)]
    return fine, coarse, spy


def body_real(case):
    out = []
    detail = f"case={case}"
    fa, ca, spy = _run_real(case, case["prior"][0])
    fb, cb, _ = _run_real(case, case["prior"][1], clock_value=1_700_012_345.0)
    tag = "C08/multilevel-real-coupling"
    if any(not np.array_equal(x, y) for x, y in zip(fa + ca, fb + cb)):
        out.append(Violation(f"{tag}/same-seed-different-results",
                             f"seed={case['seed']}: level-0 samples {fa[0][:3]} vs {fb[0][:3]}; {detail}"))
    # the diffusion part makes every sample a continuous function of its own Brownian increment: equal fine values on
    # two levels (or within a level) mean shared variates
    allf = np.concatenate(fa)
    if len(np.unique(np.round(allf, 12))) != len(allf):
        out.append(Violation(f"{tag}/two-samples-share-their-variates",
                             f"repeated fine sample values across levels/paths: level 0 {fa[0][:3]}, level 1 "
                             f"{fa[1][:3]}; {detail}"))
    for l in range(1, len(fa)):
        if np.array_equal(ca[l], fa[l - 1]):
            out.append(Violation(f"{tag}/coarse-sample-of-level-l-equals-fine-sample-of-level-l-1",
                                 f"level {l}: coarse {ca[l][:3]} == level {l - 1} fine {fa[l - 1][:3]}; {detail}"))
            break
    bad = spy.reseeded_after_samples()
    if bad and not out:
        out.append(Violation(f"{tag}/re-seeded-to-a-state-that-already-produced-samples", f"{spy.calls[:6]}; {detail}"))
    return out


def classify_real(case):
    return [f"levels={case['levels']}", case["method"]], True


# ------------------------------------------------------------------------------------ adaptive engine, real coupling
class _Probe:
    """stands for the right-jump probability in the coupling's comparison and records the variate it is compared with"""
    __array_ufunc__ = None  # numpy scalars then defer to the reflected operators below
    __slots__ = ("p", "rec", "level")

    def __init__(self, p, rec, level):
        self.p, self.rec, self.level = p, rec, level

    def _seen(self, u):
        for v in np.asarray(u, dtype=float).ravel():
            self.rec.append((self.level, float(v)))

    def __gt__(self, u):
        self._seen(u)
        return self.p > u

    def __ge__(self, u):
        self._seen(u)
        return self.p >= u

    def __lt__(self, u):
        self._seen(u)
        return self.p < u

    def __le__(self, u):
        self._seen(u)
        return self.p <= u

    def __float__(self):
        return float(self.p)


@st.composite
def strat_adaptive(draw, tier):
    return {"params": {"sigma": draw(_f(0.05, 0.3)), "p": draw(_f(0.3, 0.7)), "eta1": draw(_f(8.0, 20.0)),
                       "eta2": draw(_f(8.0, 20.0)), "intensity": draw(_f(2.0, 8.0))},
            "initial_level": 2, "extra_levels": draw(st.integers(0, 2)),  # Giles' criterion reads three levels: L0 >= 2
            "paths": draw(st.integers(8, 40)), "seed": draw(st.sampled_from([5, 77, 4242])),
            "rmse_rel": draw(_f(0.004, 0.03)), "maturity": draw(_f(0.3, 1.0)),
            "prior": [draw(st.integers(0, 50)), draw(st.integers(51, 300))],
            "method": draw(st.sampled_from(["BINARYSEARCHTREEADAPTED1D", "INVERSION", "ALIAS", "TABLE"]))}


def _run_adaptive(case, prior, clock_value):
    from rpylib.distribution.sampling import SamplingMethod
    from rpylib.grid.spatial import CTMCUniformGrid
    from rpylib.montecarlo.configuration import ConfigurationMultiLevel, ConvergenceRates
    from rpylib.montecarlo.multilevel.engine import Engine
    from rpylib.process.coupling import couplingmarkovchain as cm
    from rpylib.product.payoff import Forward
    from rpylib.product.product import Product
    from rpylib.product.underlying import Spot

    spec = {"family": "hem", "params": case["params"], "exp": {"spot": 100.0, "r": 0.02, "d": 0.0}}
    model = build_model(spec)
    grid = CTMCUniformGrid(h=0.1, model=model, truncation_probability=0.999)
    cp = cm.CouplingMarkovChain(model=model, method=SamplingMethod[case["method"]], grid=grid)
    config = ConfigurationMultiLevel(convergence_rates=ConvergenceRates(1.0, 2.0, 1.0), initial_level=case["initial_level"],
                                     maximum_level=case["initial_level"] + case["extra_levels"],
                                     initial_mc_paths=case["paths"], seed=case["seed"], nb_of_processes=1)
    engine = Engine(configuration=config, coupling_process=cp)
    product = Product(payoff_underlying=Spot(), payoff=Forward(strike=100.0), maturity=case["maturity"])
    rec = []
    saved = cm.CouplingSimulation.__dict__["probability_to_right_jump"]  # a staticmethod (grid, mass, increment)
    orig = cm.CouplingSimulation.probability_to_right_jump

    def probing(grid_, mass, increment):
        return _Probe(orig(grid_, mass, increment), rec, round(float(np.log2(0.1 / grid_.h))))

    _consume(prior)
    cm.CouplingSimulation.probability_to_right_jump = staticmethod(probing)
    try:
        with _SeedSpy(clock_value=clock_value):
            stats = engine.price(product, case["rmse_rel"] * 100.0)
    finally:
        cm.CouplingSimulation.probability_to_right_jump = saved
    nl = [int(v) for v in stats.mlmc_results.Nl]
    fine = [np.array(stats.simulation_payoff_with_fine_process(l), dtype=float) for l in range(len(nl))]
    return rec, nl, fine


def body_adaptive(case):
    out = []
    detail = f"case={case}"
    rec, nl, fine = _run_adaptive(case, case["prior"][0], 1_700_000_000.0)
    rec2, nl2, fine2 = _run_adaptive(case, case["prior"][1], 1_700_012_345.0)
    tag = "C08/adaptive-real-coupling"
    if nl != nl2 or any(not np.array_equal(x, y) for x, y in zip(fine, fine2)) or rec != rec2:
        out.append(Violation(f"{tag}/same-seed-different-results", f"sample sizes {nl} vs {nl2}; {detail}"))
    us = [u for _, u in rec]
    if len(set(us)) != len(us):
        first = {}
        where = None
        for lv, u in rec:
            if u in first:
                where = (first[u], lv)
                break
            first[u] = lv
        out.append(Violation(f"{tag}/two-coupling-decisions-use-the-same-uniform",
                             f"{len(us) - len(set(us))} of {len(us)} variates compared with the right-jump probability occur "
                             f"twice, e.g. on levels {where}; sample sizes {nl}; {detail}"))
    allf = np.concatenate(fine) if fine else np.array([])
    if len(np.unique(allf)) != len(allf):
        out.append(Violation(f"{tag}/two-samples-share-their-variates", f"repeated fine sample values; sizes {nl}; {detail}"))
    out.append(Violation(f"LABEL:levels={len(nl)}"))
    out.append(Violation("LABEL:coupling-decisions>=100" if len(us) >= 100 else "LABEL:coupling-decisions<100"))
    if len(nl) > case["initial_level"] + 1:
        out.append(Violation("LABEL:level-added"))
    if len(us) >= 100 and len(nl) >= 3:
        out.append(Violation("NONTRIVIAL"))
    return out


def classify_adaptive(case):
    return [case["method"], f"initial_level={case['initial_level']}"], False


# ------------------------------------------------------------------------------------ worker processes
def enum_mp(tier):
    cases = []
    grid = [(2, 8), (3, 9), (4, 16)] if tier == "quick" else \
        [(w, n) for w in (2, 3, 4) for n in (6, 8, 13, 16, 32, 64)]
    for fam in ("bs", "merton"):
        for w, n in grid:
            params = {"sigma": 0.2} if fam == "bs" else {"sigma": 0.1, "mu_j": 0.02, "sigma_j": 0.1, "intensity": 3.0}
            cases.append({"model": {"family": fam, "params": params, "exp": {"spot": 100.0, "r": 0.02, "d": 0.0}},
                          "paths": n, "workers": w, "mode": "fixed-dates", "seed": None, "maturity": 1.0})
    hem = {"family": "hem", "params": {"sigma": 0.1, "p": 0.6, "eta1": 25.0, "eta2": 40.0, "intensity": 5.0},
           "exp": {"spot": 100.0, "r": 0.05, "d": 0.02}}
    for seed in (None, 20261002):
        for w in ((None, 2) if tier == "quick" else (None, 2, 3, 5)):  # None = the default: one worker per CPU
            cases.append({"engine": "multilevel", "model": hem, "paths": 48, "levels": 1 if tier == "quick" else 2,
                          "workers": w, "seed": seed})
    busy = {"family": "hem", "params": {"sigma": 0.1, "p": 0.5, "eta1": 12.0, "eta2": 12.0, "intensity": 90.0},
            "exp": {"spot": 100.0, "r": 0.05, "d": 0.02}}
    # fixed dates: whatever the chunks share of the pre-drawn rows, paths of one chunk are different paths
    for w in ((2, 3) if tier == "quick" else (2, 3, 5)):
        cases.append({"engine": "multilevel", "dates": "fixed", "model": busy, "paths": 48, "levels": 1, "workers": w,
                      "seed": 20261002})
    # every sampler (TABLE draws from Python's generator): state variates of different paths differ
    for method in ("TABLE", "ALIAS", "INVERSION") if tier == "quick" else \
            ("TABLE", "ALIAS", "INVERSION", "BINARYSEARCHTREE", "HUFFMANNTREE", "BINARYSEARCHTREEADAPTED1D"):
        for w, seed in ((2, None), (3, 20261002)):
            cases.append({"engine": "multilevel", "model": busy, "paths": 48, "levels": 1, "workers": w, "seed": seed,
                          "method": method, "record_jumps": True})
    return cases


def _recording_spot():
    """a Spot underlying that records, in the parent process, the pure-jump component of every path it is valued on"""
    from rpylib.product.underlying import Spot

    class _RecSpot(Spot):
        log = []

        def value(self, times, path, jump_path, payoff_underlying=None):
            _RecSpot.log.append(np.array(jump_path, dtype=float).copy())
            return Spot.value(self, times, path, jump_path, payoff_underlying)

        def _value_log(self, times, path, jump_path, payoff_underlying=None):
            _RecSpot.log.append(np.array(jump_path, dtype=float).copy())
            return Spot._value_log(self, times, path, jump_path, payoff_underlying)

    return _RecSpot


def _run_mlmc_workers(case):
    """multilevel engine (fixed levels) on a real 1-d coupling in jump-time mode (every variate drawn inside the workers)"""
    from rpylib.distribution.sampling import SamplingMethod
    from rpylib.grid.spatial import CTMCUniformGrid
    from rpylib.montecarlo.configuration import ConfigurationMultiLevel, ConvergenceRates
    from rpylib.montecarlo.multilevel.engine import Engine
    from rpylib.process.coupling.couplingmarkovchain import CouplingMarkovChain
    from rpylib.product.payoff import Forward, PayoffDates
    from rpylib.product.product import Product
    from rpylib.product.underlying import Spot

    model = build_model(case["model"])
    payoff = Forward(strike=100.0)
    if case.get("dates", "jump-times") == "jump-times":
        payoff.payoff_dates_type = PayoffDates.STOCHASTIC  # jump-time simulation: nothing is pre-drawn
    rec = _recording_spot() if case.get("record_jumps") else None
    product = Product(payoff_underlying=rec() if rec else Spot(), payoff=payoff, maturity=0.5)
    grid = CTMCUniformGrid(h=0.05, model=model, truncation_probability=0.999)
    cp = CouplingMarkovChain(model=model, method=SamplingMethod[case.get("method", "BINARYSEARCHTREEADAPTED1D")], grid=grid)
    config = ConfigurationMultiLevel(convergence_rates=ConvergenceRates(1.0, 2.0, 1.0), initial_level=case["levels"],
                                     maximum_level=case["levels"], initial_mc_paths=case["paths"], seed=case["seed"],
                                     nb_of_processes=case["workers"])
    stats = Engine(configuration=config, coupling_process=cp).price_with_constant_mc_paths_and_level(product)
    fine = [np.array(stats.simulation_payoff_with_fine_process(l), dtype=float).ravel() for l in range(case["levels"] + 1)]
    if rec:
        return fine, list(rec.log)
    return fine


def body_mp(case):
    if case.get("engine") == "multilevel":
        fine = _run_mlmc_workers(case)
        out = []
        if case.get("record_jumps"):
            fine, jumps = fine
            # the first 20 state increments of every path with at least 20 jumps: two paths sharing them were driven by the
            # same state variates (chance collision ~ (sum p_k^2)^20 ~ 1e-12 per pair; 8 increments gave one chance
            # collision in every sixth run)
            heads = []
            for jp in jumps:
                row = np.atleast_2d(jp)[0]
                inc = np.diff(row)
                inc = inc[inc != 0.0]
                if len(inc) >= 20:
                    heads.append(tuple(np.round(inc[:20], 12)))
            if len(heads) < case["paths"]:
                out.append(Violation("LABEL:few-paths-with-20-jumps"))
            if len(set(heads)) != len(heads):
                out.append(Violation("C08/multiprocess/multilevel/paths-share-their-state-variates",
                                     f"{len(heads) - len(set(heads))} of {len(heads)} paths repeat the first 20 state increments "
                                     f"of another path (sampler {case.get('method')}, nb_of_processes={case['workers']}, "
                                     f"seed={case['seed']}); case={case}"))
        for l, arr in enumerate(fine):
            if len(arr) != case["paths"] or not np.all(np.isfinite(arr)):
                out.append(Violation("C08/multiprocess/multilevel/index-not-written-exactly-once", f"level {l}: {arr}; case={case}"))
            elif len(np.unique(arr)) != len(arr) and case.get("dates") == "fixed":
                # fixed-date mode pre-draws the Brownian rows and jump counts: chunks sharing them is the listed finding
                # (paths at the same position of different chunks get the same row, and sums of grid states collide);
                # paths *inside one chunk* use different rows and must differ (Pool.map_async's default chunk size)
                w = case["workers"]
                cs, extra = divmod(len(arr), 4 * w)
                cs += 1 if extra else 0
                inside = [(i, j) for i in range(len(arr)) for j in range(i + 1, min(len(arr), (i // cs + 1) * cs)) if arr[i] == arr[j]]
                if inside:
                    out.append(Violation("C08/multiprocess/multilevel/paths-of-one-chunk-are-copies",
                                         f"level {l}: samples {inside[:4]} of one task chunk are bit-equal ({len(np.unique(arr))} "
                                         f"distinct of {len(arr)}, nb_of_processes={w}); case={case}"))
                else:
                    out.append(Violation("C08/multiprocess/pre-drawn-variates-shared-between-chunks",
                                         f"multilevel engine, level {l}, fixed dates: {len(np.unique(arr))} distinct of {len(arr)}; case={case}"))
            elif len(np.unique(arr)) != len(arr):
                out.append(Violation("C08/multiprocess/multilevel/workers-produce-the-same-samples",
                                     f"level {l}: {len(np.unique(arr))} distinct fine samples out of {len(arr)} "
                                     f"(seed={case['seed']}, nb_of_processes={case['workers']}); case={case}"))
        allv = np.concatenate(fine)
        if not out and len(np.unique(allv)) != len(allv):
            out.append(Violation("C08/multiprocess/multilevel/levels-share-their-variates", f"case={case}"))
        return out
    out = []
    arr, spy, _ = _run_std(case, 3, nb_of_processes=case["workers"])
    detail = f"case={case}"
    if len(arr) != case["paths"] or not np.all(np.isfinite(arr)):
        out.append(Violation("C08/multiprocess/index-not-written-exactly-once", f"{arr}; {detail}"))
    nuniq = len(np.unique(arr))
    if nuniq != len(arr):
        out.append(Violation("C08/multiprocess/pre-drawn-variates-shared-between-chunks",
                             f"{case['paths']} paths on {case['workers']} workers give only {nuniq} distinct sample "
                             f"values; {detail}"))
    return out


def classify_mp(case):
    return [f"workers={case['workers']}", case["model"]["family"], case.get("engine", "standard"),
            "seeded" if case.get("seed") is not None else "unseeded"], True


SUBCHECKS = [
    SubCheck("standard-engine-real-process", body_std, classify_std,
             rule="standard engine on the real LevyProcess (BS, Merton, HEM) x fixed-date / jump-time simulation x "
                  "seed or none x two different amounts of prior RNG consumption x harness clock constant or "
                  "advancing: seeded runs bit-identical, samples pairwise distinct, no seed value applied again "
                  "after samples were produced, pre-drawn rows all consumed",
             strategy=strat_std, budget={"quick": 288, "thorough": 1500}, shards={"quick": 16, "thorough": 16}),
    SubCheck("pre-drawn-variates", body_predrawn, classify_predrawn,
             rule="fixed-date simulators (direct Levy, 1-d chain, copula chain d=2,3, 1-d coupling and copula coupling at "
                  "level 1) x payoff dates (one maturity or monthly averaging dates) x 2..6 paths: one pre-drawn Brownian "
                  "and Poisson row per path, rows pairwise distinct, popped once per path, and the diffusion part of path i "
                  "(fine and coarse) is the coefficient times row i times sqrt(dt); non-trivial = non-zero diffusion",
             strategy=strat_predrawn, budget={"quick": 320, "thorough": 1600}, shards={"quick": 16, "thorough": 16}),
    SubCheck("pre-drawn-variates-large-pass", body_large_predraw, classify_large_predraw,
             rule="one pre-computation of more than 2^21 normals (tens of thousands of paths of an average over weekly / "
                  "daily / monthly dates): one row per path, rows pairwise distinct",
             enumerate=enum_large_predraw, shards={"quick": 1, "thorough": 4}, exhaustive=False),
    SubCheck("copula-coupling-uniforms", body_copula_uniforms, classify_copula_uniforms,
             rule="copula coupling (d=2,3) at level 1, fixed dates or jump times, 10..30 coupled paths: the number of coupling "
                  "uniforms drawn equals the number of fine jumps with an odd coordinate (spies on the uniform sampler and on "
                  "the fine chain) and no value repeats; non-trivial = at least 10 such jumps",
             strategy=strat_copula_uniforms, budget={"quick": 96, "thorough": 480}, shards={"quick": 16, "thorough": 16}),
    SubCheck("multilevel-engine-scripted", body_mlmc, classify_mlmc,
             rule="multilevel engine on a scripted coupling whose samples consume numpy.random: seeded runs "
                  "identical ledgers, no two samples (across paths, passes, levels) drawn from the same variates, no "
                  "re-seeding to a used state (clock owned); non-trivial = seeded",
             strategy=strat_mlmc, budget={"quick": 384, "thorough": 2000}, shards={"quick": 16, "thorough": 16}),
    SubCheck("multilevel-engine-real-coupling", body_real, classify_real,
             rule="multilevel engine (fixed levels 1..2, 4..10 paths) on a real CouplingMarkovChain (HEM): seeded "
                  "repeat, distinct samples across levels, coarse(l) != fine(l-1)",
             strategy=strat_real, budget={"quick": 480, "thorough": 1600}, shards={"quick": 16, "thorough": 16}),
    SubCheck("worker-processes", body_mp, classify_mp,
             rule="standard engine with 2..4 worker processes x path counts (enumerated): every index written once, "
                  "stored samples pairwise distinct",
             enumerate=enum_mp, shards={"quick": 6, "thorough": 12}, exhaustive=False),
    SubCheck("adaptive-engine-real-coupling", body_adaptive, classify_adaptive,
             rule="adaptive multilevel engine (Engine.price: several passes, levels copied from the previous one and "
                  "added) on a real CouplingMarkovChain (HEM, four samplers), run twice with the same seed: identical "
                  "sample sizes, samples and coupling decisions; every variate compared with the right-jump probability "
                  "(recorded at the comparison by a probe standing for the probability) occurs once over all levels and "
                  "passes; non-trivial = at least 3 levels and 100 coupling decisions",
             strategy=strat_adaptive, budget={"quick": 144, "thorough": 640}, shards={"quick": 16, "thorough": 16},
             essential_labels=("level-added",)),
]
