"""C15 - simulated paths are running sums on the product dates within the time-step cap.

Every random collaborator of the simulators (jump counts, jump times, jump sizes / sampled states,
Brownian increments, coupling uniforms) is scripted from the Hypothesis-drawn case, and the path is
re-assembled in the harness from the same script (reference model).
"""
from __future__ import annotations

from collections import deque

import numpy as np
from hypothesis import strategies as st

from vlib.core import SubCheck, Violation
from vlib.models import _f, build_copula_model, build_model

PROPERTY_ID = "C15"
ASSUMPTIONS = [
    "jump counts, jump times, jump sizes / sampled states, Brownian increments and coupling uniforms are scripted on "
    "the instances for the duration of one call; the assembly of the path is the library's",
    "scripted jump times are strictly inside their interval and pairwise distinct",
]


class _Dates:
    """Underlying whose time grid is the drawn list of observation dates (value = last point of the path)."""

    def __new__(cls, dates):
        from rpylib.product.underlying import Underlying

        class DatesUnderlying(Underlying):
            def __init__(self, ds):
                self.ds = np.array([0.0] + list(ds), dtype=float)

            def value(self, times, path, jump_path, payoff_underlying=None):
                return path[..., -1]

            def _value_log(self, times, path, jump_path, payoff_underlying=None):
                return np.exp(path[..., -1])

            def compute_times_grid(self, maturity):
                return self.ds

        return DatesUnderlying(dates)


def _product(dates, stochastic_dates):
    from rpylib.product.payoff import Forward, PayoffDates
    from rpylib.product.product import Product

    payoff = Forward(strike=0.0)
    if stochastic_dates:
        payoff.payoff_dates_type = PayoffDates.STOCHASTIC
    return Product(payoff_underlying=_Dates(dates), payoff=payoff, maturity=float(dates[-1]))


@st.composite
def strat_case(draw, tier):
    sim = draw(st.sampled_from(["levy", "chain", "coupling"]))
    mode = draw(st.sampled_from(["fixed", "jumptimes", "maxstep"]))
    nd = draw(st.integers(1, 6 if tier == "quick" else 12))
    gaps = [draw(_f(0.05, 1.0)) for _ in range(nd)]
    dates = [float(f"{v:.6g}") for v in np.cumsum(gaps)]
    counts = [draw(st.integers(0, 4)) for _ in range(nd)]
    if draw(st.integers(0, 7)) == 0:
        counts = [0] * nd
    fracs = [sorted({float(f"{draw(st.floats(0.02, 0.98)):.4g}") for _ in range(c)}) for c in counts]
    counts = [len(f) for f in fracs]
    n_j = sum(counts)
    jumps = [draw(st.integers(-6, 6).filter(lambda k: k != 0)) for _ in range(n_j)]  # signed state increments / sizes
    ws = [draw(_f(-3.0, 3.0)) for _ in range(nd + n_j + 2)]
    us = [draw(st.floats(0.01, 0.99)) for _ in range(n_j)]
    return {"sim": sim, "mode": mode, "dates": dates, "counts": counts, "fracs": fracs, "jumps": jumps, "ws": ws,
            "us": us, "eps_rel": draw(st.sampled_from([2.0, 0.9, 0.35, 0.11, 0.5, 0.2, 0.1])), "sigma": draw(_f(0.05, 0.4)),
            # a pure-jump model of infinite variation: the chain's diffusion part is then the small-jump substitute only
            "infinite_variation": draw(st.sampled_from([False, False, True])),
            "method": draw(st.sampled_from(["INVERSION", "BINARYSEARCHTREEADAPTED1D", "ALIAS", "BINARYSEARCHTREE"])),
            "script_the_uniforms": draw(st.booleans()),
            "level": draw(st.integers(1, 2))}


def _script(proc_like, case, normal_script):
    """script jump counts and jump times on a LevyProcess-like object"""
    counts = deque(case["counts"])
    fr = deque(case["fracs"])

    def nb_jump_dt(dt):
        return counts.popleft()

    def jump_times_from_nb_of_jumps(dt, n):
        f = fr.popleft()
        assert len(f) == n
        return dt * np.array(f, dtype=float)

    proc_like.nb_jump_dt = nb_jump_dt
    if case.get("script_the_uniforms"):
        # the library's own draw of the jump times stays in place (it orders them); the uniforms behind it are scripted,
        # handed over in decreasing order: whoever is in charge of ordering them has to have done it
        def random_sample(size=None):
            f = fr.popleft()
            assert size is None or len(f) == int(np.prod(size))
            return np.array(f[::-1], dtype=float)

        np.random.random_sample = random_sample
    else:
        proc_like.jump_times_from_nb_of_jumps = jump_times_from_nb_of_jumps


def _extend(ws, n=600):
    """deterministic extension of the drawn Brownian variates (maximum-step mode inserts extra time steps)"""
    m = len(ws)
    return [ws[i % m] * (1.0 + 0.013 * (i // m)) + 0.001 * (i // m) for i in range(n)]


class _Normal:
    """replacement for numpy.random.normal handing out the scripted Brownian variates in order"""

    def __init__(self, ws):
        self.ws = list(ws)
        self.used = 0

    def __call__(self, loc=0.0, scale=1.0, size=None):
        n = int(np.prod(size)) if size is not None else 1
        out = np.array(self.ws[self.used:self.used + n], dtype=float)
        assert len(out) == n, "not enough scripted normals"
        self.used += n
        return out.reshape(size) if size is not None else float(out[0])


def _reference(case, jump_values, coef, mode, eps=None):
    """(times, jump path, diffusion path) assembled from the script."""
    dates = np.array([0.0] + case["dates"], dtype=float)
    T = dates[-1]
    jt = []
    for (t0, t1), f in zip(zip(dates[:-1], dates[1:]), case["fracs"]):
        jt += [t0 + (t1 - t0) * x for x in f]
    jt = np.array(jt, dtype=float)
    jv = np.array(jump_values, dtype=float)
    if mode == "fixed":
        times = dates
        jpath = np.array([jv[jt <= t].sum() if len(jv) else 0.0 for t in times])
        w = np.array(_extend(case["ws"])[:len(times) - 1], dtype=float)
        dpath = np.concatenate(([0.0], np.cumsum(coef * np.sqrt(np.diff(times)) * w)))
        return times, jpath, dpath
    times = np.concatenate(([0.0], jt, [T]))
    vals = np.concatenate(([0.0], np.cumsum(jv), [jv.sum() if len(jv) else 0.0]))
    if mode == "maxstep" and eps is not None and eps < T:
        # insert points so that no step - up to the maturity, jumps or not - exceeds eps; inserted points repeat the
        # previous value
        new_t, new_v = [0.0], [0.0]
        for t, v in zip(times[1:], vals[1:]):
            while t - new_t[-1] > eps * (1 + 1e-12):
                new_t.append(new_t[-1] + eps)
                new_v.append(new_v[-1])
            new_t.append(t)
            new_v.append(v)
        times, vals = np.array(new_t), np.array(new_v)
    w = np.array(_extend(case["ws"])[:len(times) - 1], dtype=float)
    dpath = np.concatenate(([0.0], np.cumsum(coef * np.sqrt(np.diff(times)) * w)))
    return times, vals, dpath


def _compare(tag, path, ref, out, detail, row=None, check_diffusion=True):
    times, jpath, dpath = ref
    pt = np.asarray(path.jump_times, dtype=float)
    pj = np.asarray(path.jump_path, dtype=float)
    pd = np.asarray(path.diffusion_path, dtype=float)
    if row is not None:
        pj, pd = pj[row], pd[row]
    pj, pd = pj.ravel(), pd.ravel()
    if len(pt) < 2 or pt[0] != 0.0 or not np.all(np.diff(pt) > 0) or abs(pt[-1] - times[-1]) > 1e-12:
        out.append(Violation(f"{tag}/times-not-increasing-from-0-to-maturity", f"times {pt}; {detail}"))
        return False
    if pj.shape != pt.shape or pd.shape != pt.shape:
        out.append(Violation(f"{tag}/path-and-times-have-different-lengths", f"{pt.shape} {pj.shape} {pd.shape}; {detail}"))
        return False
    if pj[0] != 0.0 or pd[0] != 0.0:
        out.append(Violation(f"{tag}/path-does-not-start-at-zero", f"{pj[0]} {pd[0]}; {detail}"))
    if pt.shape != times.shape or not np.allclose(pt, times, rtol=0, atol=1e-12):
        out.append(Violation(f"{tag}/times-differ-from-the-scripted-dates-and-jump-times", f"{pt} vs {times}; {detail}"))
        return False
    if not np.allclose(pj, jpath, rtol=1e-12, atol=1e-12):
        out.append(Violation(f"{tag}/jump-path-is-not-the-running-sum-of-the-jumps",
                             f"jump path {pj} vs running sums {jpath} at times {times}; {detail}"))
        return False
    if check_diffusion and not np.allclose(pd, dpath, rtol=1e-12, atol=1e-12):
        out.append(Violation(f"{tag}/diffusion-path-is-not-the-running-sum-of-scaled-increments",
                             f"diffusion {pd} vs {dpath}; {detail}"))
        return False
    return True


def body(case):
    import rpylib.process.coupling.couplingmarkovchain as cmc
    import rpylib.process.levyprocess as lp
    import rpylib.process.markovchain.markovchain as mcm
    from rpylib.distribution.sampling import SamplingMethod
    from rpylib.grid.spatial import CTMCUniformGrid
    from rpylib.process.coupling.couplingmarkovchain import CouplingMarkovChain
    from rpylib.process.levyprocess import LevyProcess
    from rpylib.process.markovchain.markovchain import MarkovChainProcess

    out = []
    sim, mode = case["sim"], case["mode"]
    dates = case["dates"]
    T = dates[-1]
    nd = len(dates)
    detail = f"case={case}"
    tag = f"C15/{sim}/{mode}/{'one-date' if nd == 1 else 'many-dates'}"
    spec = {"family": "hem", "params": {"sigma": case["sigma"], "p": 0.5, "eta1": 10.0, "eta2": 10.0, "intensity": 3.0},
            "exp": None}
    if case.get("infinite_variation") and sim != "levy":  # (the direct simulator needs a finite jump intensity)
        spec = {"family": "cgmy", "params": {"c": 0.5, "g": 8.0, "m": 9.0, "y": 1.3}, "exp": None}
    model = build_model(spec)
    product = _product(dates, stochastic_dates=(mode != "fixed"))
    eps = case["eps_rel"] * T if mode == "maxstep" else None
    normal = _Normal(_extend(case["ws"]))
    patched = []

    def patch_normal(module):
        patched.append((module, module.np.random.normal))

    orig_normal = np.random.normal
    orig_random_sample = np.random.random_sample
    np.random.normal = normal
    try:
        if sim == "levy":
            proc = LevyProcess(model)
            proc.initialisation(product, max_step_epsilon=eps)
            proc.pre_computation(1, product)
            _script(proc, case, normal)
            sizes = deque(float(k) * 0.125 for k in case["jumps"])

            def jump_increment(n):
                return np.array([sizes.popleft() for _ in range(n)], dtype=float)

            proc.model.jump_increment = jump_increment
            if mode == "fixed":
                ps = proc._path_simulation
                ps._poisson_rv = deque([list(case["counts"])])
                ps._brownian_increments = deque([[list(case["ws"][:nd])]])
            normal.used = 0
            path = proc.simulate_one_path()
            ref = _reference(case, [0.125 * k for k in case["jumps"]], float(model.diffusion_coefficient()), mode, eps)
            _compare(tag, path, ref, out, detail)
            if mode == "fixed" and (len(ps._poisson_rv) or len(ps._brownian_increments)):
                out.append(Violation(f"{tag}/pre-drawn-rows-not-consumed", detail))
            if sizes:
                out.append(Violation(f"{tag}/scripted-jump-sizes-not-all-used", f"{len(sizes)} left; {detail}"))
            return out

        grid = CTMCUniformGrid.create_from_fixed_nb_of_points(h=0.05, nb_of_points=24, dimension=1)
        method = SamplingMethod[case["method"]]
        if sim == "chain":
            proc = MarkovChainProcess(model=model, method=method, grid=grid)
            proc.initialisation(product, max_step_epsilon=eps)
            proc.pre_computation(1, product)
            _script(proc, case, normal)
            incs = deque(int(k) for k in case["jumps"])
            as_array = case["method"] in ("ALIAS", "BINARYSEARCHTREE")

            def sample(size=1):
                vals = [incs.popleft() for _ in range(size)]
                return np.array(vals, dtype=int) if as_array else vals

            ps = proc._path_simulation
            ps._sampling = sample
            if mode == "fixed":
                ps._poisson_rv = deque([list(case["counts"])])
                ps._brownian_increments = deque([[list(case["ws"][:nd])]])
            normal.used = 0
            path = proc.simulate_one_path()
            o = grid.origin_coordinate.value
            jv = [float(grid.axes[0][o + k]) for k in case["jumps"]]
            ref = _reference(case, jv, float(proc.equivalent_diffusion_coefficient), mode, eps)
            _compare(tag, path, ref, out, detail)
            if incs:
                out.append(Violation(f"{tag}/scripted-states-not-all-used", f"{len(incs)} left; {detail}"))
            return out

        # coupled chain at level >= 1
        cp = CouplingMarkovChain(model=model, method=method, grid=grid)
        # the requested step shrinks from level to level (CouplingSDE passes (h/2)^beta): the last request applies
        eps0 = None if eps is None else eps * 2 ** case["level"]
        cp.initialisation(product, max_step_epsilon=eps0)
        cp.pre_computation(1, product)
        for lev in range(1, case["level"] + 1):
            cp.next_level(1, None, product, max_step_epsilon=None if eps is None else eps * 2 ** (case["level"] - lev))
        fine = cp.fine_process
        _script(fine, case, normal)
        g = cp.grid
        o = g.origin_coordinate.value
        nmax = len(g.axes[0])
        incs_list = [int(np.clip(2 * k + (1 if i % 2 else 0), -o + 1, nmax - o - 2)) or 1
                     for i, k in enumerate(case["jumps"])]
        incs = deque(incs_list)
        as_array = case["method"] in ("ALIAS", "BINARYSEARCHTREE")

        def sample(size=1):
            vals = [incs.popleft() for _ in range(size)]
            return np.array(vals, dtype=int) if as_array else vals

        ps = fine._path_simulation
        ps._sampling = sample
        us = deque(case["us"])
        cp.uniform.sample = lambda size=1: np.array([us.popleft()])
        if mode == "fixed":
            ps._poisson_rv = deque([list(case["counts"])])
            ps._brownian_increments = deque([[list(case["ws"][:nd])]])
        normal.used = 0
        path = cp.simulate_one_path_with_coupling()
        fine_vals = [float(g.axes[0][o + k]) for k in incs_list]
        # reference coupled values: even increments copied; odd ones to the right neighbour iff u < p_right
        sim_obj = cp._path_coupling_simulation
        coarse_vals = []
        ui = iter(case["us"])
        for k in incs_list:
            if k % 2 == 0:
                coarse_vals.append(float(g.axes[0][o + k]))
            else:
                p = float(sim_obj.probability_to_right_jump(g, fine.model.mass, k))
                u = next(ui)
                coarse_vals.append(float(g.axes[0][o + k + 1]) if u < p else float(g.axes[0][o + k - 1]))
        ref_f = _reference(case, fine_vals, float(cp.equivalent_diffusion_coefficient_fine), mode, eps)
        ref_c = _reference(case, coarse_vals, float(cp.equivalent_diffusion_coefficient_coarse), mode, eps)
        ok = _compare(tag + "/fine", path, ref_f, out, detail, row=0)
        if ok:
            _compare(tag + "/coarse", path, ref_c, out, detail, row=1)
        if incs:
            out.append(Violation(f"{tag}/scripted-states-not-all-used", f"{len(incs)} left; {detail}"))
        return out
    finally:
        np.random.normal = orig_normal
        np.random.random_sample = orig_random_sample


def classify(case):
    nd = len(case["dates"])
    nz = sum(1 for c in case["counts"] if c > 0)
    labels = [case["sim"], case["mode"], "one-date" if nd == 1 else "many-dates",
              "no-jump" if nz == 0 else ("jumps-in-1-interval" if nz == 1 else "jumps-in-2+-intervals")]
    if case["sim"] != "levy":
        labels.append(case["method"])
    labels.append("infinite-variation" if case.get("infinite_variation") else "finite-variation")
    nt = (nd >= 2 and nz >= 2) or (case["mode"] == "maxstep" and case["eps_rel"] < 1) or \
        (case["counts"][-1] == 0 and nz >= 1)
    return labels, nt


# ------------------------------------------------------------------------------------ build_finer_grid functions
@st.composite
def strat_finer(draw, tier):
    n = draw(st.integers(1, 12))
    gaps = [draw(_f(0.01, 1.0)) for _ in range(n)]
    times = [float(f"{v:.6g}") for v in np.cumsum(gaps)]
    dim = draw(st.sampled_from([1, 1, 2, 3]))
    vals = [[draw(_f(-2.0, 2.0)) for _ in range(n)] for _ in range(dim)]
    return {"times": times, "vals": vals, "cvals": [[draw(_f(-2.0, 2.0)) for _ in range(n)] for _ in range(dim)],
            "eps_rel": draw(st.sampled_from([3.0, 1.0, 0.5, 0.2, 0.07])), "which": draw(st.sampled_from(["levy", "helper"]))}


def body_finer(case):
    from rpylib.process.coupling.helper import create_build_finer_grid_fun
    from rpylib.process.levyprocess import SimulationMaximumStep

    out = []
    times = np.array(case["times"], dtype=float)
    T = times[-1] * 1.1
    # 1.0001: keep the cap away from exact multiples of the gaps (an inserted point would otherwise coincide with an
    # original time up to rounding and the matching below would be ambiguous)
    eps = 1.0001 * case["eps_rel"] * float(np.max(np.diff(np.concatenate(([0.0], times)))))
    dim = len(case["vals"])
    vals = np.array(case["vals"], dtype=float)
    cvals = np.array(case["cvals"], dtype=float)
    if dim == 1:
        vals, cvals = vals[0], cvals[0]
    detail = f"case={case} eps={eps}"
    tag = f"C15/build-finer-grid/{case['which']}/dim{dim}"
    if case["which"] == "levy":
        fun = SimulationMaximumStep.create_build_finer_grid_fun(epsilon=eps, maturity=T)
        nt, nv = fun(None, times.copy(), vals.copy())
        results = [(np.asarray(nv, dtype=float), vals)]
    else:
        fun = create_build_finer_grid_fun(epsilon=eps, maturity=T)
        nt, nf, nc = fun(None, times.copy(), vals.copy(), cvals.copy())
        results = [(np.asarray(nf, dtype=float), vals), (np.asarray(nc, dtype=float), cvals)]
    nt = np.asarray(nt, dtype=float)
    steps = np.diff(np.concatenate(([0.0], nt, [T])))  # the caller appends the maturity: that last step counts too
    if np.any(steps > eps * (1 + 1e-9)) and eps < T:
        out.append(Violation(f"{tag}/step-larger-than-the-cap", f"max step {steps.max()} > {eps}; {detail}"))
    if not np.all(steps > -1e-15):
        out.append(Violation(f"{tag}/times-not-non-decreasing", f"{nt}; {detail}"))
    # original (time, value) pairs kept, in order; inserted points repeat the preceding value (0 before the first)
    for new_v, old_v in results:
        nv2 = np.atleast_2d(new_v)
        ov2 = np.atleast_2d(old_v)
        if nv2.shape[-1] != len(nt):
            out.append(Violation(f"{tag}/values-and-times-have-different-lengths", f"{nv2.shape} vs {len(nt)}; {detail}"))
            return out
        j = 0
        prev = np.zeros(ov2.shape[0])
        for i, t in enumerate(nt):
            if j < len(times) and abs(t - times[j]) <= 1e-9 * max(1.0, times[j]):
                if not np.allclose(nv2[:, i], ov2[:, j], rtol=0, atol=1e-12):
                    out.append(Violation(f"{tag}/original-value-not-kept",
                                         f"time {t}: {nv2[:, i]} vs {ov2[:, j]}; {detail}"))
                    return out
                prev = ov2[:, j]
                j += 1
            elif not np.allclose(nv2[:, i], prev, rtol=0, atol=1e-12):
                out.append(Violation(f"{tag}/inserted-point-does-not-repeat-the-preceding-value",
                                     f"time {t}: {nv2[:, i]} vs {prev}; {detail}"))
                return out
        if j != len(times):
            out.append(Violation(f"{tag}/original-jump-time-lost", f"{j} of {len(times)} kept; new times {nt}; {detail}"))
    return out


def classify_finer(case):
    return [case["which"], f"dim={len(case['vals'])}", f"eps_rel={case['eps_rel']}"], case["eps_rel"] < 1


# ------------------------------------------------------------------------------------ copula simulators
@st.composite
def strat_copula(draw, tier):
    case = draw(strat_case(tier))
    case["sim"] = draw(st.sampled_from(["copula-chain", "copula-coupling"]))
    d = draw(st.sampled_from([2, 2, 3]))
    case["d"] = d
    n_j = sum(case["counts"])
    case["jumps_nd"] = [[draw(st.integers(-3, 3)) for _ in range(d)] for _ in range(n_j)]
    for row in case["jumps_nd"]:
        if all(c == 0 for c in row):
            row[draw(st.integers(0, d - 1))] = draw(st.sampled_from([-2, -1, 1, 2]))
    case["ws"] = [draw(_f(-3.0, 3.0)) for _ in range(d * (len(case["dates"]) + n_j + 2))]
    case["copula_method"] = draw(st.sampled_from(["INVERSION", "BINARYSEARCHTREEADAPTED"]))
    return case


def body_copula(case):
    from rpylib.distribution.sampling import SamplingMethod
    from rpylib.grid.spatial import CTMCUniformGrid
    from rpylib.process.coupling.couplinglevycopula import CouplingProcessLevyCopula
    from rpylib.process.markovchain.markovchainlevycopula import MarkovChainLevyCopula

    out = []
    d, mode, dates = case["d"], case["mode"], case["dates"]
    T, nd = dates[-1], len(dates)
    detail = f"case={case}"
    tag = f"C15/{case['sim']}/{mode}/{'one-date' if nd == 1 else 'many-dates'}"
    margins = [{"family": "hem", "params": {"sigma": case["sigma"] * (1 + 0.3 * i), "p": 0.5, "eta1": 10.0 + i,
                                            "eta2": 12.0, "intensity": 2.0}, "exp": None} for i in range(d)]
    model = build_copula_model({"margins": margins, "copula": {"type": "clayton", "theta": 1.5, "eta": 0.6}})
    grid = CTMCUniformGrid.create_from_fixed_nb_of_points(h=0.05, nb_of_points=8, dimension=d)
    product = _product(dates, stochastic_dates=(mode != "fixed"))
    eps = case["eps_rel"] * T if mode == "maxstep" else None
    method = SamplingMethod[case["copula_method"]]
    normal = _Normal(_extend(case["ws"]))
    orig_normal = np.random.normal
    orig_random_sample = np.random.random_sample
    np.random.normal = normal
    try:
        coupled = case["sim"] == "copula-coupling"
        if coupled:
            cp = CouplingProcessLevyCopula(levy_copula_model=model, grid=grid, method=method)
            cp.initialisation(product, max_step_epsilon=eps)
            cp.pre_computation(1, product)
            cp.next_level(1, None, product, max_step_epsilon=eps)
            proc = cp.fine_process
        else:
            proc = MarkovChainLevyCopula(levy_copula_model=model, grid=grid, method=method)
            proc.initialisation(product, max_step_epsilon=eps)
            proc.pre_computation(1, product)
        _script(proc, case, normal)
        g = proc.grid
        oc = tuple(g.origin_coordinate.value)
        lim = [len(a) for a in g.axes]
        scale = 2 if coupled else 1
        incs_list = []
        for i, row in enumerate(case["jumps_nd"]):
            inc = [int(np.clip(scale * c + ((i + k) % 2 if coupled and c != 0 else 0), -o + 1, n - o - 2))
                   for k, (c, o, n) in enumerate(zip(row, oc, lim))]
            if all(c == 0 for c in inc):
                inc[0] = 1
            incs_list.append(tuple(inc))
        incs = deque(incs_list)

        def sample(size=1):
            return [incs.popleft() for _ in range(size)]

        proc.sampling.sample = sample
        ps = proc._path_simulation
        if mode == "fixed":
            ps._poisson_rv = deque([list(case["counts"])])
            ps._brownian_increments = deque([np.array(case["ws"][:d * nd], dtype=float).reshape(d, nd).tolist()])
        fine_vals = [np.array([g.axes[k][oc[k] + c] for k, c in enumerate(inc)], dtype=float) for inc in incs_list]
        coarse_vals = None
        if coupled:
            sim_obj = cp._path_coupling_simulation
            cs = getattr(sim_obj, "_CouplingLevyCopulaSimulation__coupling_state")
            coarse_vals = []
            for inc, u in zip(incs_list, case["us"]):
                cp._uniform.sample = lambda size=1, _u=u: np.array([_u])
                coarse_vals.append(np.asarray(cs(inc), dtype=float).copy())
            us = deque(case["us"])
            n_odd = [any(c % 2 for c in inc) for inc in incs_list]
            it = iter([u for u, odd in zip(case["us"], n_odd) if odd])
            cp._uniform.sample = lambda size=1: np.array([next(it)])
        normal.used = 0
        path = cp.simulate_one_path_with_coupling() if coupled else proc.simulate_one_path()
        # reference assembly per coordinate
        dates0 = np.array([0.0] + dates, dtype=float)
        jt = []
        for (t0, t1), f in zip(zip(dates0[:-1], dates0[1:]), case["fracs"]):
            jt += [t0 + (t1 - t0) * x for x in f]
        jt = np.array(jt, dtype=float)

        def assemble(vals, M):
            vals = np.array(vals, dtype=float).reshape(len(vals), d)
            if mode == "fixed":
                times = dates0
                J = np.array([[vals[jt <= t, k].sum() if len(vals) else 0.0 for t in times] for k in range(d)])
                W = np.array(_extend(case["ws"])[:d * nd], dtype=float).reshape(d, nd)
            else:
                times = np.concatenate(([0.0], jt, [T]))
                cum = np.cumsum(vals, axis=0) if len(vals) else np.zeros((0, d))
                last = cum[-1] if len(vals) else np.zeros(d)
                J = np.vstack([np.zeros(d), cum, last]).T
                if mode == "maxstep" and eps is not None and eps < T:
                    nt, nJ = [0.0], [np.zeros(d)]
                    for t, v in zip(times[1:], J.T[1:]):  # up to and including the maturity
                        while t - nt[-1] > eps * (1 + 1e-12):
                            nt.append(nt[-1] + eps)
                            nJ.append(nJ[-1])
                        nt.append(t)
                        nJ.append(v)
                    times, J = np.array(nt), np.array(nJ).T
                nW = len(times) - 1
                W = np.array(_extend(case["ws"])[:d * nW], dtype=float).reshape(d, nW)
            D = np.hstack([np.zeros((d, 1)), np.cumsum(np.sqrt(np.diff(times)) * (M @ W), axis=1)])
            return times, J, D

        pt = np.asarray(path.jump_times, dtype=float)
        pj = np.asarray(path.jump_path, dtype=float)
        pd = np.asarray(path.diffusion_path, dtype=float)
        comps = [("fine", fine_vals, np.asarray(cp._diffusion_matrix_h if coupled else ps.diffusion_matrix, dtype=float), 0)]
        if coupled:
            comps.append(("coarse", coarse_vals, np.asarray(cp._diffusion_matrix_2h, dtype=float), 1))
        for name, vals, M, row in comps:
            times, J, D = assemble(vals, M)
            j = pj[row] if coupled else pj
            dd = pd[row] if coupled else pd
            if pt.shape != times.shape or not np.allclose(pt, times, rtol=0, atol=1e-12):
                out.append(Violation(f"{tag}/times-differ-from-the-scripted-dates-and-jump-times", f"{pt} vs {times}; {detail}"))
                return out
            if j.shape != J.shape or not np.allclose(j, J, rtol=1e-12, atol=1e-12):
                out.append(Violation(f"{tag}/{name}/jump-path-is-not-the-running-sum-of-the-jumps",
                                     f"{np.asarray(j).tolist()} vs {J.tolist()} at {times}; {detail}"))
                return out
            if dd.shape != D.shape or not np.allclose(dd, D, rtol=1e-10, atol=1e-12):
                out.append(Violation(f"{tag}/{name}/diffusion-path-is-not-the-running-sum-of-scaled-increments",
                                     f"{np.asarray(dd).tolist()} vs {D.tolist()}; {detail}"))
                return out
        if incs:
            out.append(Violation(f"{tag}/scripted-states-not-all-used", f"{len(incs)} left; {detail}"))
    finally:
        np.random.normal = orig_normal
        np.random.random_sample = orig_random_sample
    return out


def classify_copula(case):
    nd = len(case["dates"])
    nz = sum(1 for c in case["counts"] if c > 0)
    labels = [case["sim"], case["mode"], f"d={case['d']}", "one-date" if nd == 1 else "many-dates",
              "no-jump" if nz == 0 else ("jumps-in-1-interval" if nz == 1 else "jumps-in-2+-intervals")]
    nt = (nd >= 2 and nz >= 2) or (case["mode"] == "maxstep" and case["eps_rel"] < 1) or (case["counts"][-1] == 0 and nz >= 1)
    return labels, nt


# ------------------------------------------------------------------------------------ busy intervals (tens of thousands of jumps)
def enum_busy(tier):
    cases = [{"counts": [3, 70000, 0, 12], "T": 2.0}, {"counts": [65535, 65536, 1], "T": 1.0}]
    if tier != "quick":
        cases += [{"counts": [0, 131077, 4, 0, 70001], "T": 30.0}, {"counts": [200000], "T": 10.0}]
    return cases


def body_busy(case):
    """direct simulator on fixed dates; the jump counts go through the pre-computation (numpy's Poisson sampler scripted,
    numpy integers as it returns them), every jump has size 1: the jump path is the running sum of the counts"""
    from rpylib.process.levyprocess import LevyProcess

    counts, T = case["counts"], case["T"]
    nd = len(counts)
    dates = [T * (k + 1) / nd for k in range(nd)]
    model = build_model({"family": "merton", "params": {"sigma": 0.1, "mu_j": 0.0, "sigma_j": 0.1, "intensity": 5.0}, "exp": None})
    product = _product(dates, stochastic_dates=False)
    proc = LevyProcess(model)
    proc.initialisation(product)
    todo = deque(counts)
    orig = np.random.poisson

    def scripted(lam=1.0, size=None):
        n_ = 1 if size is None else int(np.prod(size))
        vals = np.array([todo.popleft() for _ in range(n_)], dtype=np.int64)
        return vals[0] if size is None else vals.reshape(size)

    np.random.poisson = scripted
    try:
        proc.pre_computation(1, product)
    finally:
        np.random.poisson = orig
    proc.model.jump_increment = lambda n: np.ones(int(n), dtype=float)
    path = proc.simulate_one_path()
    got = np.asarray(path.jump_path, dtype=float).ravel()
    ref = np.concatenate(([0.0], np.cumsum(np.array(counts, dtype=float))))
    if got.shape != ref.shape or not np.array_equal(got, ref):
        return [Violation("C15/levy/fixed/busy-interval/jump-path-is-not-the-running-sum-of-the-jumps",
                          f"unit jumps, counts per interval {counts}: jump path {got.tolist()} vs {ref.tolist()}")]
    return []


def classify_busy(case):
    return [f"dates={len(case['counts'])}"], max(case["counts"]) > 65535


SUBCHECKS = [
    SubCheck("busy-intervals", body_busy, classify_busy,
             rule="direct simulator, fixed dates, unit jumps, jump counts per interval up to 2e5 handed out by a scripted "
                  "numpy Poisson sampler through the pre-computation: jump path = running sum of the counts",
             enumerate=enum_busy, shards={"quick": 2, "thorough": 4}, exhaustive=False),
    SubCheck("scripted-simulators-1d", body, classify,
             rule="simulator in {direct LevyProcess, MarkovChainProcess, CouplingMarkovChain level 1..2} x mode in "
                  "{fixed dates, jump times, maximum step} x 1..6(12) observation dates x scripted jump counts (incl. "
                  "none) / jump times / sizes or states / Brownian increments / coupling uniforms; the returned path "
                  "vs the harness re-assembly; non-trivial = jumps in >= 2 intervals of >= 2 dates, or a gap after the "
                  "last jump, or inserted points",
             strategy=strat_case, budget={"quick": 1440, "thorough": 8000}, shards={"quick": 16, "thorough": 16},
             essential_labels=("levy", "chain", "coupling", "fixed", "jumptimes", "maxstep", "many-dates")),
    SubCheck("scripted-simulators-copula", body_copula, classify_copula,
             rule="MarkovChainLevyCopula and CouplingProcessLevyCopula (level 1), d in {2,3}, same scripted collaborators "
                  "as the 1-d sub-check (states are tuples; Brownian increments are d x n matrices multiplied by the "
                  "process's diffusion matrix); the coarse increments are those the coupling itself returns for the "
                  "scripted uniforms (the kernel is C03's subject), the assembly into running sums is checked here",
             strategy=strat_copula, budget={"quick": 768, "thorough": 4000}, shards={"quick": 16, "thorough": 16},
             essential_labels=("copula-chain", "copula-coupling", "many-dates")),
    SubCheck("build-finer-grid", body_finer, classify_finer,
             rule="the finer-grid builders (direct/chain version and fine+coarse helper, scalar and 2-3 dimensional "
                  "values) on drawn time/value arrays and caps: steps <= cap, original pairs kept in order, inserted "
                  "points repeat the preceding value, fine and coarse aligned; non-trivial = cap below the largest gap",
             strategy=strat_finer, budget={"quick": 2400, "thorough": 12000}),
]
