"""C19 - credit closed forms equal the default-region jump rate of the benchmarked chain."""
from __future__ import annotations

import itertools
import math

import numpy as np
from hypothesis import strategies as st
from scipy.integrate import quad

from vlib.core import SubCheck, Violation
from vlib.copula_ref import RefCopulaModel, cells_of_axis
from vlib.grids import chain_model_spec, model_scale
from vlib.models import _f, branch_of, build_copula_model, build_model, copula_spec, quad_hints
from vlib.oracles import nu_integral

PROPERTY_ID = "C19"
INF = float("inf")
ASSUMPTIONS = [
    "chain rates are those verified by C01; the closed form is compared with them up to the independently computed "
    "Levy mass outside the grid's box (the chain lives on the truncated support)",
    "reference intensity = inclusion-exclusion over the harness reference copula model (quadrature tail integrals)",
]


@st.composite
def strat_case(draw, tier):
    d = draw(st.sampled_from([1, 2, 2, 3]))
    margins = [draw(chain_model_spec(exp=True, cgmy_branches=["y<0", "y=0", "0<y<1"] if d > 1 else None)) for _ in range(d)]
    # (a zero rate is admissible: no discounting)
    r = 0.0 if draw(st.integers(0, 7)) == 0 else draw(_f(0.005, 0.08))
    for m in margins:
        m["exp"]["r"] = r
    case = {"d": d, "margins": margins, "h_rel": draw(_f(0.5, 1.5)), "a_frac": [draw(_f(0.05, 0.95)) for _ in range(d)],
            "symmetric": draw(st.booleans()), "recovery": draw(_f(0.0, 0.9)), "spread": draw(_f(0.0005, 0.2)), "positional": draw(st.booleans()),
            "maturity": draw(_f(0.5, 10.0)), "t": draw(_f(0.1, 10.0)), "bump": draw(_f(1.01, 1.5)),
            "which": draw(st.integers(0, d - 1)),
            "method": draw(st.sampled_from(["INVERSION", "BINARYSEARCHTREEADAPTED"]))}
    if d > 1:
        case["copula"] = draw(copula_spec())
    return case


def _theta_ref(case, levels):
    d = case["d"]
    if d == 1:
        spec = case["margins"][0]
        nu = build_model(spec, force_exp=False).levy_triplet.nu
        return nu_integral(nu, -INF, levels[0], 0, quad_hints(spec))[0]
    ref = RefCopulaModel(case["margins"], case["copula"])
    tot = 0.0
    for r in range(1, d + 1):
        for I in itertools.combinations(range(d), r):
            m = ref.mass([-INF] * r, [levels[i] for i in I], list(I))
            tot += (-1) ** (r + 1) * m
    return tot


def body(case):
    from rpylib.distribution.sampling import SamplingMethod
    from rpylib.distribution.samplingfactory import create_q_vector, create_sampling_inversion_method
    from rpylib.grid import spatial as S
    from rpylib.numerical.closedform.cflevycopula import CFLevyCopulaModel
    from rpylib.numerical.closedform.cflevymodel import CFLevyModel
    from rpylib.process.markovchain.markovchain import MarkovChainProcess
    from rpylib.process.markovchain.markovchainlevycopula import MarkovChainLevyCopula
    from rpylib.product.payoff import CDS

    out = []
    d = case["d"]
    detail = f"case={case}"
    if d == 1:
        model = build_model(case["margins"][0])
        cf = CFLevyModel(model=model)
    else:
        model = build_copula_model({"margins": case["margins"], "copula": case["copula"]})
        if not model.jump_of_finite_variation():
            return [Violation("REJECTED", "infinite-variation copula (constructor cost)")]
        cf = CFLevyCopulaModel(levy_copula_model=model)
    sc = min(model_scale(m) for m in case["margins"])
    h = float(f"{case['h_rel'] * sc:.5g}")
    l, r = S.compute_truncation(model=model, h=h)
    levels = [float(l + f * (-h - l)) for f in case["a_frac"]]
    tag = f"C19/d{d}"

    def theta(lv):
        return float(cf._theta(lv[0])) if d == 1 else float(cf._theta(list(lv)))

    th = theta(levels)
    # (1) closed form = Levy mass of the union of the default half-spaces
    ref = _theta_ref(case, levels)
    if not math.isfinite(th) or abs(th - ref) > 1e-6 * abs(ref) + 1e-10:
        out.append(Violation(f"{tag}/intensity-differs-from-the-mass-of-the-union-of-half-spaces",
                             f"theta={th!r}, reference={ref!r}, levels={levels}; {detail}"))
    # (2) increasing in each threshold
    k = case["which"]
    lv2 = list(levels)
    lv2[k] = levels[k] / case["bump"]  # closer to zero: larger default region
    th2 = theta(lv2)
    if th2 < th * (1 - 1e-9) - 1e-12:
        out.append(Violation(f"{tag}/intensity-not-increasing-in-a-threshold",
                             f"theta({levels})={th!r} > theta({lv2})={th2!r}; {detail}"))
    # thresholds written as integers: a number is a number
    ilv = [-(1 + (k + case["which"]) % 2) for k in range(d)]
    th_int, th_flt = theta(list(ilv)), theta([float(v) for v in ilv])
    if not (th_int == th_flt or abs(th_int - th_flt) <= 1e-12 * abs(th_flt)):
        out.append(Violation(f"{tag}/integer-typed-thresholds-change-the-intensity", f"{ilv}: {th_int!r} vs {th_flt!r}; {detail}"))
    # (3) stated functions of the intensity
    R, T, t = case["recovery"], case["maturity"], case["t"]
    if d == 1:
        sp = float(cf.survival_probability(levels[0], t))
        par = float(cf.cds_spread(levels[0], R))
    else:
        sp = float(cf.survival_probability(levels, t))
        par = float(cf.first_to_default_par_spread(levels, R))
    if abs(sp - math.exp(-t * th)) > 1e-12:
        out.append(Violation(f"{tag}/survival-probability", f"{sp} vs exp(-t theta)={math.exp(-t * th)}; {detail}"))
    if abs(par - (1 - R) * th) > 1e-12 * (1 + th):
        out.append(Violation(f"{tag}/par-spread", f"{par} vs (1-R) theta={(1 - R) * th}; {detail}"))
    if d == 1 and th > 1e-8:
        target = par
        try:
            back = float(cf.implied_cds_threshold(cds_spread=target, recovery_rate=R, h0=h))
            if abs(back - levels[0]) > 1e-6 * abs(levels[0]) and abs(theta([back]) - th) > 1e-8 * th:
                out.append(Violation(f"{tag}/implied-threshold-does-not-invert-the-spread",
                                     f"level {levels[0]} -> spread {target} -> level {back}; {detail}"))
        except ValueError:
            if -10 < levels[0] < -h:
                out.append(Violation(f"{tag}/implied-threshold-raises-inside-its-bracket", detail))
    # spread <-> present value: E[CDS payoff] under tau ~ Exp(theta), by numerical integration of the payoff itself
    rr = case["margins"][0]["exp"]["r"]
    s = case["spread"]
    # (the contract is written with keywords or positionally, in the documented order recovery rate, spread, maturity,
    # discounting)
    if case.get("positional"):
        cds = CDS(R, s, T, lambda u: math.exp(-rr * u))
    else:
        cds = CDS(recovery_rate=R, spread=s, maturity=T, discounting=lambda u: math.exp(-rr * u))
    if th > 1e-9:
        dfT = math.exp(-rr * T)
        f = lambda u: th * math.exp(-th * u) * float(cds.evaluate(u)) * dfT  # noqa: E731
        pv = quad(f, 0, T, epsabs=1e-13, epsrel=1e-12)[0] + math.exp(-th * T) * float(cds.evaluate(T * 2 + 1.0)) * dfT
        dl = (1 - R) * th * (1 - math.exp(-(rr + th) * T)) / (rr + th)
        fl = (1 - math.exp(-(rr + th) * T)) / (rr + th)
        if abs(pv - (dl - s * fl)) > 1e-9 * (1 + abs(pv)):
            out.append(Violation(f"{tag}/cds-payoff-expectation", f"E[payoff]={pv!r} vs DL - s FL={dl - s * fl!r}; {detail}"))
        if -10 < s < 10:
            imp = float(cf.implied_cds_spread(pv, levels[0] if d == 1 else levels, R, T))
            if abs(imp - s) > 1e-8 * (1 + s):
                out.append(Violation(f"{tag}/implied-spread-does-not-invert-the-present-value",
                                     f"spread {s} -> pv {pv} -> spread {imp}; {detail}"))
    # (4) default-region jump rate of the chain on a credit grid
    try:
        grid = S.CTMCCredit(h=h, level_a=levels[0] if d == 1 else levels, model=model, symmetric_grid=case["symmetric"])
    except ValueError:
        return out + [Violation("LABEL:credit-grid-rejected-the-thresholds")]
    if d == 1:
        proc = MarkovChainProcess(model=model, method=SamplingMethod.INVERSION, grid=grid)
        q = np.array(create_q_vector(proc.model.levy_triplet.nu, grid), dtype=float)
        axis = np.array(grid.axes[0], dtype=float)
        rate = float(q[axis < levels[0]].sum())
    else:
        proc = MarkovChainLevyCopula(levy_copula_model=model, grid=grid, method=SamplingMethod[case["method"]])
        lam = float(proc.intensity_of_jumps)
        inv = create_sampling_inversion_method(grid, proc.model, lam, True)
        oc = tuple(grid.origin_coordinate.value)
        rate = 0.0
        for st_ in itertools.product(*[range(len(a)) for a in grid.axes]):
            if st_ == oc:
                continue
            if any(grid.axes[i][st_[i]] < levels[i] for i in range(d)):
                rate += float(inv.probability_to_jump_to_state(tuple(x - o for x, o in zip(st_, oc)))) * lam
    # building a chain on the model leaves the caller's model as it was: the closed forms asked again (same pricer object and
    # a new one on the same model) give what they gave before the chain existed
    th_again = theta(levels)
    if d == 1:
        th_new = float(CFLevyModel(model=model)._theta(levels[0]))
    else:
        th_new = float(type(cf)(model)._theta(list(levels)))
    if th_again != th or abs(th_new - th) > 1e-12 * abs(th):
        out.append(Violation(f"{tag}/closed-form-changed-by-building-a-chain-on-the-model",
                             f"intensity before {th!r}; after the chain was built: same pricer {th_again!r}, new pricer "
                             f"{th_new!r}; {detail}"))
    if d == 1:
        # the closed form is a function of the model it holds *as it is now*: after the model is truncated in place to the
        # grid's bounds (what a chain does to its own copy) the same pricer object must agree with a fresh pricer
        lo_t, hi_t = (float(v) for v in grid.truncations[0])
        model.truncate_levy_measure(truncations=(lo_t, hi_t))
        again = float(cf._theta(levels[0]))
        fresh_cf = float(CFLevyModel(model=model)._theta(levels[0]))
        nu0 = build_model(case["margins"][0], force_exp=False).levy_triplet.nu
        expect = th - nu_integral(nu0, -INF, lo_t, 0, quad_hints(case["margins"][0]))[0]
        if again != fresh_cf or abs(again - expect) > 1e-6 * abs(expect) + 1e-10:
            out.append(Violation(f"{tag}/closed-form-does-not-follow-the-model-after-an-in-place-truncation",
                                 f"same pricer {again!r}, fresh pricer on the truncated model {fresh_cf!r}, mass of "
                                 f"({lo_t}, {levels[0]}) {expect!r} (before the truncation {th!r}); {detail}"))
    leak = 0.0
    for i, m in enumerate(case["margins"]):
        nu = build_model(m, force_exp=False).levy_triplet.nu
        lo, hi = (float(v) for v in grid.truncations[i])
        hints = quad_hints(m)
        leak += nu_integral(nu, -INF, lo, 0, hints)[0] + nu_integral(nu, hi, INF, 0, hints)[0]
    if rate > th + 1e-6 * th + 1e-10 or rate < th - leak - 1e-6 * th - 1e-10:
        out.append(Violation(f"{tag}/chain-default-rate-differs-from-the-closed-form",
                             f"sum of rates of the default states {rate!r}, closed form {th!r}, mass outside the box "
                             f"{leak!r}; levels={levels}; {detail}"))
    return out


def classify(case):
    labels = [f"d={case['d']}", "symmetric" if case["symmetric"] else "asymmetric"] + \
             sorted({branch_of(m) for m in case["margins"]})
    if case["d"] > 1:
        labels.append(case["copula"]["type"])
    if case["margins"][0]["exp"]["r"] == 0:
        labels.append("zero-rate")
    near = any(f < 0.15 for f in case["a_frac"])
    if near:
        labels.append("threshold-near-truncation")
    return labels, (case["d"] >= 2 or not case["symmetric"] or near)


SUBCHECKS = [
    SubCheck("closed-forms-and-chain", body, classify,
             rule="margins (all families, exponential) x copula x d in 1..3 x thresholds inside (l,-h) x h x symmetric / "
                  "asymmetric credit grid x recovery, spread, maturity: theta vs inclusion-exclusion over the harness "
                  "reference model, monotone in each threshold, survival / par spread / implied threshold / implied "
                  "spread / E[CDS payoff] by numerical integration, sum of the chain's default-state rates vs theta "
                  "within the computed truncation leak; non-trivial = d>=2, asymmetric grid or threshold near the bound",
             strategy=strat_case, budget={"quick": 1440, "thorough": 4800}, shards={"quick": 16, "thorough": 16}),
]
