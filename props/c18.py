"""C18 - Fourier and closed-form pricers are mutually consistent and arbitrage-free.

The parameter box in which the COS series truncation error is below tolerance is *empirical*: every case is
first priced at (n, L) and at (4n, 2L); cases whose two prices differ by more than the tolerance are counted
as rejected (outside the box), never as violations.
"""
from __future__ import annotations

import math

import numpy as np
from hypothesis import strategies as st

from vlib.core import SubCheck, Violation
from vlib.models import _f, branch_of, build_model

PROPERTY_ID = "C18"
ASSUMPTIONS = [
    "the box where the COS truncation error is below 1e-7*spot is established per case by a convergence sweep "
    "(n=10000,L=10) vs (n=40000,L=20); cases outside are counted as rejected",
    "strikes on a ladder inside the inner 40% of [S0 e^a, S0 e^b] (a, b = the pricer's cumulant-based range): a probe showed errors of 1e-4*K at 75% of the range even for Black-Scholes (boundary effect of the expansion)",
    "FFT comparisons at 1e-3*max(spot,K) on strikes >= 0.25*spot (the accuracy the repository's own test accepts; the Carr-Madan damping amplifies the quadrature error at small strikes), closed form vs COS at 1e-7",
]


@st.composite
def strat_model(draw, families=("bs", "hem", "merton", "vg", "cgmy")):
    fam = draw(st.sampled_from(list(families)))
    if fam == "bs":
        p = {"sigma": draw(_f(0.05, 0.6))}
    elif fam == "hem":
        p = {"sigma": draw(_f(0.05, 0.4)), "p": draw(_f(0.1, 0.9)), "eta1": draw(_f(5.0, 50.0)), "eta2": draw(_f(5.0, 50.0)),
             "intensity": draw(_f(0.5, 10.0))}
    elif fam == "merton":
        p = {"sigma": draw(_f(0.05, 0.4)), "mu_j": draw(_f(0.0, 0.2)), "sigma_j": draw(_f(0.05, 0.3)), "intensity": draw(_f(0.5, 10.0))}
    elif fam == "vg":
        p = {"sigma": draw(_f(0.1, 0.4)), "nu": draw(_f(0.02, 0.5)), "theta": draw(_f(-0.3, 0.3))}
    else:
        br = draw(st.sampled_from(["y<0", "y=0", "0<y<1", "y=1", "1<y<2"]))
        y = {"y<0": draw(_f(-1.0, -0.1)), "y=0": 0.0, "0<y<1": draw(_f(0.1, 0.9)), "y=1": 1.0, "1<y<2": draw(_f(1.1, 1.8))}[br]
        p = {"c": draw(_f(0.05, 3.0)), "g": draw(_f(3.0, 30.0)), "m": draw(_f(3.0, 30.0)), "y": y}
    spec = {"family": fam, "params": p, "exp": {"spot": draw(_f(5.0, 300.0)), "r": draw(_f(0.0, 0.08)), "d": draw(_f(0.0, 0.06))}}
    if draw(st.integers(0, 5)) == 0:
        spec["spot_moved"] = draw(st.sampled_from([0.5, 0.8, 1.25, 3.0]))  # built at another spot, spot assigned afterwards
    if fam != "bs" and draw(st.integers(0, 3)) == 0:
        spec["route"] = "updated"  # parameters assigned one by one, then initialisation() (what a calibration does)
    return spec


@st.composite
def strat_case(draw, tier):
    # "declare": the model's triplet is re-declared in another Levy-Khintchine representation before pricing (what every
    # CTMC process does to its copy of the model; the multilevel engine prices that copy with COS): same process, same prices
    return {"model": draw(strat_model()), "T": draw(_f(0.1, 3.0)), "nk": draw(st.integers(3, 9)),
            "scalar_k": draw(st.floats(0.2, 0.8)),
            "declare": draw(st.sampled_from([None, None, "TILDE", "ONEONE", "CENTER"])),
            "notional": draw(st.sampled_from([1.0, 2.5, 100.0, 0.01])),
            "nlong": draw(st.sampled_from([129, 150, 200, 256, 301]))}


def _ladder(pricer, spot, T, nk, carry=0.0):
    """Strikes K = S0 exp(carry + u), u on the inner 40 % of [-delta, delta] (delta = half-width of the pricer's range).

    The pricer's range [a, b] = c1 -+ delta is that of X_T; the expansion variable is y = log(S0/K) + (r-d)T + X_T, so its
    law sits at least 0.6*delta (6 'standard deviations' for L=10) inside [a, b] exactly when |log(K/S0) - (r-d)T| <=
    0.4*delta: the ladder is centred on the forward, not on the spot (the range itself ignores the carry (r-d)T).
    Strikes whose log-moneyness log(S0/K) leaves the inner 95 % of [a, b] are dropped ("strike inside the range")."""
    a, b = pricer._interval_a_b(t=T)
    delta = 0.5 * (b - a)
    logk = carry + np.linspace(-0.4 * delta, 0.4 * delta, nk)
    keep = (-logk >= 0.95 * a) & (-logk <= 0.95 * b) if a < 0 < b else np.ones(nk, dtype=bool)
    if np.count_nonzero(keep) < 3:
        return np.array([np.nan])
    return spot * np.exp(logk[keep])


def _atom(spec, T):
    """mass of the atom of X_T (finite-activity pure-jump laws only: CGMY with y<0)"""
    if spec["family"] == "cgmy" and spec["params"]["y"] < 0:
        p = spec["params"]
        lam = p["c"] * math.gamma(-p["y"]) * (p["g"] ** p["y"] + p["m"] ** p["y"])
        return math.exp(-lam * T)
    return 0.0


def _strip_edge(spec):
    """sup of the s with E[exp(s X_T)] finite (inf for Gaussian-type tails)"""
    p = spec["params"]
    if spec["family"] == "cgmy":
        return p["m"]
    if spec["family"] == "hem":
        return p["eta1"]
    if spec["family"] == "vg":
        s2 = p["sigma"] ** 2
        return math.sqrt(p["theta"] ** 2 + 2 * s2 / p["nu"]) / s2 - p["theta"] / s2
    return float("inf")


def _range_misses_the_law(model, pricer, T):
    """The cumulant-based range [a, b] of the pricer must cover the law of the Levy part X_T it expands: mean -+ 6 standard
    deviations, both taken from the model's exponent by central differences (not from the stated cumulants the range is
    built from).  Returns a message, or None."""
    levy = getattr(model, "levy_model", model)
    s_ = 1e-3
    k0, kp, km = (complex(levy.levy_exponent(-1j * v)).real for v in (0.0, s_, -s_))
    mean = (kp - km) / (2 * s_) * T
    var = max((kp - 2 * k0 + km) / s_ ** 2, 0.0) * T
    a, b = (float(v) for v in pricer._interval_a_b(t=T))
    lo, hi = mean - 6 * math.sqrt(var), mean + 6 * math.sqrt(var)
    if not (a <= lo and hi <= b):
        return f"range [{a}, {b}] of the expansion does not contain mean -+ 6 std = [{lo}, {hi}] of X_T"
    return None


def body_arbitrage(case):
    from rpylib.numerical.cosmethod import COSPricer

    out = []
    spec, T = case["model"], case["T"]
    model = build_model(spec)
    if case.get("declare") and spec["family"] != "bs":
        from rpylib.model.levymodel.levymodel import LevyRepresentation

        model.levy_triplet.set_representation(LevyRepresentation[case["declare"]])
    e = spec["exp"]
    spot = e["spot"]
    br = branch_of(spec)
    p1, p2 = COSPricer(model, n=10_000, l=10), COSPricer(model, n=40_000, l=20)
    miss = _range_misses_the_law(model, p1, T)
    if miss:
        return [Violation(f"C18/cos/{br}/truncation-range-does-not-cover-the-law", f"{miss}; case={case}")]
    ks = _ladder(p1, spot, T, case["nk"], (spec["exp"]["r"] - spec["exp"]["d"]) * T)
    if not np.all(np.isfinite(ks)) or ks[0] <= 0 or np.any(np.diff(ks) <= 0):
        return [Violation("REJECTED", "degenerate strike ladder")]
    tol = 1e-7 * max(spot, float(ks[-1]))
    calls, puts = np.asarray(p1.call(ks, T), dtype=float), np.asarray(p1.put(ks, T), dtype=float)
    sweep = float(np.max(np.abs(puts - np.asarray(p2.put(ks, T), dtype=float)) / np.maximum(ks, spot)))
    if not sweep <= 1e-7:
        if spec["family"] in ("bs", "hem", "merton"):
            # smooth densities (diffusion coefficient >= 0.05, T >= 0.1): the series must have converged
            return [Violation(f"C18/cos/{br}/series-not-converged-on-a-smooth-model",
                              f"puts at (n=10000,L=10) and (n=40000,L=20) differ by {sweep:.3g} relative; case={case}")]
        return [Violation("REJECTED", "series truncation error above tolerance (outside the empirical box)"),
                Violation(f"LABEL:outside-box/{br}")]
    detail = f"case={case} strikes={ks.tolist()}"
    df = math.exp(-e["r"] * T)
    F = spot * math.exp((e["r"] - e["d"]) * T)
    if np.max(np.abs(calls - puts - df * (F - ks))) > 1e-10 * spot * max(1.0, ks[-1] / spot):
        out.append(Violation(f"C18/cos/{br}/call-put-parity-with-the-model-forward",
                             f"max |C-P-df(F-K)| = {np.max(np.abs(calls - puts - df * (F - ks)))!r}; {detail}"))
    fw = np.asarray(p1.forward(ks, T), dtype=float)
    if np.max(np.abs(fw - df * (F - ks))) > 1e-10 * spot * max(1.0, ks[-1] / spot):
        out.append(Violation(f"C18/cos/{br}/forward-price", f"{fw} vs {df * (F - ks)}; {detail}"))
    if np.any(calls < np.maximum(df * (F - ks), 0.0) - tol) or np.any(calls > df * F + tol):
        out.append(Violation(f"C18/cos/{br}/call-outside-no-arbitrage-bounds", f"calls {calls}; {detail}"))
    if np.any(np.diff(calls) > tol) or np.any(np.diff(puts) < -tol):
        out.append(Violation(f"C18/cos/{br}/not-monotone-in-strike", f"calls {calls} puts {puts}; {detail}"))
    # convexity on a non-uniform ladder: slopes non-decreasing
    slopes = np.diff(calls) / np.diff(ks)
    if np.any(np.diff(slopes) < -tol / np.min(np.diff(ks))):
        out.append(Violation(f"C18/cos/{br}/call-not-convex-in-strike", f"slopes {slopes}; {detail}"))
    # digital: its own truncation error is measured by the same sweep (laws with an atom or an unbounded density, e.g.
    # finite-activity pure-jump CGMY or VG-like laws at short maturities, converge slowly there)
    dig = np.asarray(p1.digital(ks, T), dtype=float)
    eps_dig = float(np.max(np.abs(dig - np.asarray(p2.digital(ks, T), dtype=float))))
    if eps_dig > 1e-4:
        out.append(Violation(f"LABEL:digital-not-converged/{br}"))
    else:
        # a law with an atom of mass m (finite-activity pure-jump) has a discontinuous distribution function: its cosine
        # series overshoots by up to ~9 % of m next to the jump (Gibbs) whatever n is, and the sweep does not see it
        tol_d = 1e-7 + 5 * eps_dig + 0.1 * _atom(spec, T)
        if np.any(dig < -tol_d) or np.any(dig > df + tol_d) or np.any(np.diff(dig) > tol_d):
            out.append(Violation(f"C18/cos/{br}/digital-not-a-decreasing-discounted-probability",
                                 f"{dig} df={df} (measured truncation error {eps_dig:.2g}); {detail}"))
        # digital = -dC/dK.  C is convex in K, so without any smoothness assumption
        #   -(C(k+h)-C(k))/h <= digital(k) <= -(C(k)-C(k-h))/h   (one-sided slopes bracket the derivative);
        # where the central differences at h and h/2 agree (the law is smooth at that scale) the digital must equal them
        mid = len(ks) // 2
        k0 = float(ks[mid])
        hk = k0 * min(1e-3, 0.02 * math.sqrt(max(float(model.cumulant.cumulant2(T)), 1e-12)))
        cm = np.asarray(p1.call(np.array([k0 - hk, k0 - hk / 2, k0, k0 + hk / 2, k0 + hk]), T), dtype=float)
        t_slope = 4 * max(sweep, 1e-9) * max(spot, k0) / hk + 5 * eps_dig + 1e-7 + 0.1 * _atom(spec, T)
        right, left = -(cm[4] - cm[2]) / hk, -(cm[2] - cm[0]) / hk
        if not right - t_slope <= dig[mid] <= left + t_slope:
            out.append(Violation(f"C18/cos/{br}/digital-outside-the-one-sided-slopes-of-the-call",
                                 f"digital {dig[mid]} not in [{right}, {left}] +- {t_slope:.2g}; {detail}"))
        d1, d2 = -(cm[4] - cm[0]) / (2 * hk), -(cm[3] - cm[1]) / hk
        if abs(d1 - d2) <= 2e-5 and abs(d2 - dig[mid]) > 1e-4 + 5 * eps_dig:
            out.append(Violation(f"C18/cos/{br}/digital-is-not-minus-dC-dK", f"{dig[mid]} vs {d2} (h) and {d1} (2h); {detail}"))
    # cdf(K) = P(S_T < K) (its docstring): 1 - digital/df, in [0,1], non-decreasing
    if eps_dig <= 1e-4:
        cdf = np.asarray(p1.cdf(time=T, x=ks), dtype=float)
        tol_c = 1e-7 + 5 * eps_dig + 0.1 * _atom(spec, T)
        if np.max(np.abs(cdf - (1.0 - dig / df))) > 1e-9 + tol_c * (1 - df) / df:
            out.append(Violation(f"C18/cos/{br}/cdf-is-not-one-minus-the-undiscounted-digital",
                                 f"cdf {cdf} vs 1 - digital/df {1.0 - dig / df} (df={df}); {detail}"))
        elif np.any(cdf < -tol_c) or np.any(cdf > 1 + tol_c) or np.any(np.diff(cdf) < -tol_c):
            out.append(Violation(f"C18/cos/{br}/cdf-not-a-distribution-function", f"{cdf}; {detail}"))
    # scalar strike gives the same as the vector
    ksc = float(ks[0] + case["scalar_k"] * (ks[-1] - ks[0]))
    c_s = float(np.asarray(p1.call(np.array([ksc]), T)).ravel()[0])
    c_v = float(np.asarray(p1.call(np.array([ks[0], ksc, ks[-1]]), T))[1])
    if abs(c_s - c_v) > 1e-12 * spot:
        out.append(Violation(f"C18/cos/{br}/scalar-and-vector-strikes-differ", f"{c_s} vs {c_v}; {detail}"))
    # implied density: non-negative up to truncation error, integrates to one
    pd_ = COSPricer(model, n=2_000, l=10)  # the density is evaluated on many points: keep the cosine matrix small
    pd2 = COSPricer(model, n=8_000, l=10)
    a, b = pd_._interval_a_b(t=T)
    u = model.x0_value() + np.linspace(a, b, 1201)
    dens = np.asarray(pd_.density_log(time=T, u=u), dtype=float)
    dens2 = np.asarray(pd2.density_log(time=T, u=u), dtype=float)
    peak = float(np.max(dens2))
    eps_den = float(np.max(np.abs(dens - dens2)))
    if eps_den > 1e-3 * peak:
        out.append(Violation(f"LABEL:density-not-converged/{br}"))
    else:
        if np.min(dens) < -(5 * eps_den + 1e-7 * peak):
            out.append(Violation(f"C18/cos/{br}/negative-density",
                                 f"min {np.min(dens)} vs peak {peak} (measured truncation error {eps_den:.2g}); {detail}"))
        mass = float(np.trapezoid(dens, u))
        if abs(mass - 1.0) > 1e-5 + 5 * eps_den * (b - a):
            out.append(Violation(f"C18/cos/{br}/density-does-not-integrate-to-one", f"{mass}; {detail}"))
        # density vs density_log
        sgrid = np.exp(u[::100])
        d_s = np.asarray(pd_.density(time=T, s=sgrid), dtype=float)
        if not np.allclose(d_s * sgrid, dens[::100], rtol=1e-9, atol=1e-12 * peak):
            out.append(Violation(f"C18/cos/{br}/density-vs-log-density", detail))
    # price() dispatch
    from rpylib.product.payoff import Forward, PayoffType, Vanilla
    from rpylib.product.product import Product
    from rpylib.product.underlying import Spot

    pc = np.asarray(p1.price(Product(Spot(), Vanilla(strike=list(ks), payoff_type=PayoffType.CALL), maturity=T)), dtype=float)
    pp = np.asarray(p1.price(Product(Spot(), Vanilla(strike=float(ks[1]), payoff_type=PayoffType.PUT), maturity=T)), dtype=float)
    pf = np.asarray(p1.price(Product(Spot(), Forward(strike=float(ks[1])), maturity=T)), dtype=float)
    if not np.allclose(pc, calls, rtol=0, atol=1e-12 * spot) or abs(float(pp.ravel()[0]) - puts[1]) > 1e-12 * spot or abs(float(pf.ravel()[0]) - fw[1]) > 1e-12 * spot:
        out.append(Violation(f"C18/cos/{br}/price-dispatch", detail))
    # price() supports forwards, calls and puts only: a digital product is either refused or priced as a digital
    from rpylib.product.payoff import Digital

    try:
        pd_ = float(np.asarray(p1.price(Product(Spot(), Digital(strike=float(ks[1]), payoff_type=PayoffType.CALL), maturity=T))).ravel()[0])
    except NotImplementedError:
        pd_ = None
    if pd_ is not None and abs(pd_ - float(np.asarray(p1.digital(np.array([ks[1]]), T)).ravel()[0])) > 1e-9:
        out.append(Violation(f"C18/cos/{br}/price-of-a-digital-product-is-not-the-digital-price",
                             f"price(digital product, K={ks[1]}) = {pd_} vs digital() = {p1.digital(np.array([ks[1]]), T)}; {detail}"))
    # a long strike vector (bins of a density plot) gives the prices of its entries taken a few at a time
    nlong = case.get("nlong", 150)
    kl = np.exp(np.linspace(np.log(ks[0]), np.log(ks[-1]), nlong))
    for fn_name in ("put", "digital"):
        fn = getattr(p1, fn_name)
        whole = np.asarray(fn(kl, T), dtype=float)
        parts = np.concatenate([np.asarray(fn(kl[i:i + 50], T), dtype=float) for i in range(0, nlong, 50)])
        if whole.shape != parts.shape or not np.allclose(whole, parts, rtol=0, atol=1e-12 * max(spot, kl[-1])):
            j = int(np.argmax(np.abs(whole - parts))) if whole.shape == parts.shape else -1
            out.append(Violation(f"C18/cos/{br}/long-strike-vector-differs-from-its-pieces",
                                 f"{fn_name} over {nlong} strikes: entry {j} is {whole[j] if j >= 0 else whole.shape} in the "
                                 f"whole vector and {parts[j] if j >= 0 else parts.shape} priced 50 at a time; {detail}"))
            break
    # the same through price() for products with a notional: whatever the convention (price() of the unit product, as
    # now, or notional x price), call - put = forward must hold between the three products and the three must scale alike
    N = case.get("notional", 2.5)
    k1 = float(ks[1])
    trio = [np.asarray(p1.price(Product(Spot(), pay, maturity=T, notional=N)), dtype=float).ravel()[0]
            for pay in (Vanilla(strike=k1, payoff_type=PayoffType.CALL), Vanilla(strike=k1, payoff_type=PayoffType.PUT), Forward(strike=k1))]
    unit = [calls[1], puts[1], fw[1]]
    ratios = [t / u for t, u in zip(trio, unit) if abs(u) > 1e-6 * spot]
    if abs(trio[0] - trio[1] - trio[2]) > 1e-9 * spot * max(1.0, abs(N)) * max(1.0, ks[-1] / spot) or \
            (ratios and max(ratios) - min(ratios) > 1e-9 * max(1.0, abs(N))):
        out.append(Violation(f"C18/cos/{br}/price-of-products-with-a-notional-breaks-parity",
                             f"notional {N}: price(call), price(put), price(forward) = {trio} against unit prices {unit}; {detail}"))
    return out


def classify_arbitrage(case):
    br = branch_of(case["model"])
    return [br, "T<0.5" if case["T"] < 0.5 else ("T>1.5" if case["T"] > 1.5 else "T~1"),
            f"declared={case.get('declare') or 'as-built'}"], \
        (case["model"]["family"] != "bs" or not (0.5 <= case["T"] <= 1.5))


# ------------------------------------------------------------------------------------ pricers against each other
@st.composite
def strat_cross(draw, tier):
    kind = draw(st.sampled_from(["bs", "cos-fft", "cos-fft", "vg-cgmy"]))
    long_dated = False
    if kind == "bs":
        model = draw(strat_model(families=("bs",)))
    elif kind == "vg-cgmy":
        model = draw(strat_model(families=("vg",)))
    else:
        model = draw(strat_model(families=("hem", "merton", "vg", "cgmy")))
    return {"kind": kind, "model": model, "T": draw(_f(10.0, 30.0)) if long_dated else draw(_f(0.2, 2.5)),
            "nk": draw(st.integers(3, 7))}


def body_cross(case):
    from rpylib.numerical.cosmethod import COSPricer
    from rpylib.numerical.fft import FFTPricer

    out = []
    spec, T = case["model"], case["T"]
    model = build_model(spec)
    spot = spec["exp"]["spot"]
    br = branch_of(spec)
    p1, p2 = COSPricer(model, n=10_000, l=10), COSPricer(model, n=40_000, l=20)
    miss = _range_misses_the_law(model, p1, T)
    if miss:
        return [Violation(f"C18/cos/{br}/truncation-range-does-not-cover-the-law", f"{miss}; case={case}")]
    ks = _ladder(p1, spot, T, case["nk"], (spec["exp"]["r"] - spec["exp"]["d"]) * T)
    if not np.all(np.isfinite(ks)) or ks[0] <= 0:
        return [Violation("REJECTED", "degenerate strike ladder")]
    calls = np.asarray(p1.call(ks, T), dtype=float)
    puts = np.asarray(p1.put(ks, T), dtype=float)
    sweep = float(np.max(np.abs(puts - np.asarray(p2.put(ks, T), dtype=float)) / np.maximum(ks, spot)))
    if not sweep <= 1e-7:
        if spec["family"] in ("bs", "hem", "merton"):
            return [Violation(f"C18/cos/{br}/series-not-converged-on-a-smooth-model",
                              f"puts at (n=10000,L=10) and (n=40000,L=20) differ by {sweep:.3g} relative; case={case}")]
        return [Violation("REJECTED", "outside the empirical box"), Violation(f"LABEL:outside-box/{br}")]
    detail = f"case={case} strikes={ks.tolist()}"
    if case["kind"] == "bs":
        cf = model.closed_form
        cc = np.array([float(cf.call(float(k), T)) for k in ks])
        cp = np.array([float(cf.put(float(k), T)) for k in ks])
        if np.max(np.abs(cc - calls) / np.maximum(ks, spot)) > 1e-7 or np.max(np.abs(cp - puts) / np.maximum(ks, spot)) > 1e-7:
            out.append(Violation("C18/cross/bs/cos-vs-closed-form", f"calls {calls} vs {cc}; {detail}"))
        dg = np.asarray(cf.digital(ks, T), dtype=float)
        if np.max(np.abs(dg - np.asarray(p1.digital(ks, T), dtype=float))) > 1e-7:
            out.append(Violation("C18/cross/bs/digital-cos-vs-closed-form", detail))
        if abs(float(cf.forward(float(ks[0]), T)) - float(p1.forward(np.array([ks[0]]), T)[0])) > 1e-10 * spot:
            out.append(Violation("C18/cross/bs/forward-cos-vs-closed-form", detail))
        if abs(cf.call(float(ks[0]), T) - cf.put(float(ks[0]), T) - cf.forward(float(ks[0]), T)) > 1e-10 * spot:
            out.append(Violation("C18/cross/bs/closed-form-parity", detail))
    # FFT (Carr-Madan) against COS.  The FFT pricer integrates with a fixed step eta = 0.25: the characteristic
    # function is resolved only when the standard deviation of the log-return is moderate (a probe with a standard
    # deviation of ~3 gave errors of 40% at the money, 0.79 gave 6e-3*spot at 0.4*spot in the thorough tier): compare when sqrt(cumulant2) <= 0.6
    std = math.sqrt(max(float(model.cumulant.cumulant2(T)), 0.0))
    if std > 0.6:
        return out + [Violation("LABEL:fft-step-too-coarse-for-this-variance")]
    try:
        fft = FFTPricer(model)
        fc = np.asarray(fft.call(ks, T), dtype=float)
        fp = np.asarray(fft.put(ks, T), dtype=float)
    except ValueError as ex:
        if "sufficient condition" in str(ex):
            return out + [Violation("LABEL:fft-damping-condition-not-met")]
        raise
    # Carr-Madan: the damping exp(-alpha k) amplifies the quadrature error like K^-alpha at small strikes (a probe
    # showed 1e-3*spot at K = 0.08*spot): compare on K >= 0.25*spot only
    # and the integrand psi(v) has a singularity at distance (strip edge - (1+alpha)) from the real axis: the fixed step
    # eta = 0.25 resolves it only when that distance is >= 1 (at 0.5 the observed error is 1.3e-3*spot)
    if _strip_edge(spec) - (1 + fft.alpha) < 1.0:
        return out + [Violation("LABEL:fft-integrand-singularity-closer-than-4-steps")]
    sel = ks >= 0.25 * spot
    if not np.any(sel):
        return out
    if np.max(np.abs(fc - calls)[sel] / np.maximum(ks, spot)[sel]) > 1e-3 or \
            np.max(np.abs(fp - puts)[sel] / np.maximum(ks, spot)[sel]) > 1e-3:
        out.append(Violation(f"C18/cross/{br}/fft-vs-cos", f"fft calls {fc} vs cos {calls}; {detail}"))
    if case["kind"] == "vg-cgmy":
        p = spec["params"]
        s2 = p["sigma"] ** 2
        lp = math.sqrt(p["theta"] ** 2 + 2 * s2 / p["nu"]) / s2 - p["theta"] / s2
        lm = lp + 2 * p["theta"] / s2
        cg = build_model({"family": "cgmy", "params": {"c": 1.0 / p["nu"], "g": lm, "m": lp, "y": 0.0}, "exp": spec["exp"]})
        cc = np.asarray(COSPricer(cg, n=10_000, l=10).call(ks, T), dtype=float)
        if np.max(np.abs(cc - calls) / np.maximum(ks, spot)) > 1e-7:
            out.append(Violation("C18/cross/vg-vs-its-cgmy-parametrisation", f"{calls} vs {cc}; {detail}"))
    return out


def classify_cross(case):
    return [case["kind"], branch_of(case["model"])] + (["long-dated-low-volatility"] if case["T"] >= 10 else []) + \
        (["spot-assigned-after-construction"] if case["model"].get("spot_moved") else []), True


# ------------------------------------------------------------------------------------ one pricer object, many calls
@st.composite
def strat_reuse(draw, tier):
    ops = draw(st.lists(st.tuples(st.sampled_from(["call", "put", "digital", "forward", "density", "cdf", "fft-call", "fft-put"]),
                                  _f(0.05, 5.0), _f(0.5, 1.6)), min_size=2, max_size=6))
    return {"model": draw(strat_model()), "ops": [list(o) for o in ops]}


def body_reuse(case):
    """a pricer is a pure function of (model, n, L, arguments): a result does not depend on the calls made before"""
    from rpylib.numerical.cosmethod import COSPricer
    from rpylib.numerical.fft import FFTPricer

    spec = case["model"]
    model = build_model(spec)
    spot = spec["exp"]["spot"]
    br = branch_of(spec)
    shared = COSPricer(model, n=512, l=10)
    shared_fft = None

    def run(pricer, fftp, op, T, m):
        ks = spot * np.array([0.8 * m, m, 1.25 * m])
        if op in ("call", "put", "digital", "forward"):
            return np.asarray(getattr(pricer, op)(ks, T), dtype=float)
        if op == "density":
            return np.asarray(pricer.density(time=T, s=ks), dtype=float)
        if op == "cdf":
            return np.asarray(pricer.cdf(time=T, x=ks), dtype=float)
        return np.asarray(getattr(fftp, op[4:])(ks, T), dtype=float)

    out = []
    for i, (op, T, m) in enumerate(case["ops"]):
        fresh_fft = None
        if op.startswith("fft"):
            if shared_fft is None:
                shared_fft = FFTPricer(model)
            fresh_fft = FFTPricer(model)
        try:
            got = run(shared, shared_fft, op, T, m)
        except ValueError as ex:
            if "sufficient condition" in str(ex):
                out.append(Violation("LABEL:fft-damping-condition-not-met"))
                continue
            raise
        want = run(COSPricer(model, n=512, l=10), fresh_fft, op, T, m)
        if not np.array_equal(got, want, equal_nan=True):
            out.append(Violation(f"C18/reuse/{'fft' if op.startswith('fft') else 'cos'}/result-depends-on-earlier-calls",
                                 f"op #{i} {op}(T={T}) on the reused pricer {got} vs on a fresh one {want}; case={case}"))
            break
    return out


def classify_reuse(case):
    ts = {round(o[1], 6) for o in case["ops"]}
    kinds = {("fft" if o[0].startswith("fft") else "cos") for o in case["ops"]}
    return [branch_of(case["model"])] + sorted(kinds) + ["several-maturities" if len(ts) > 1 else "one-maturity"], len(ts) > 1


# ------------------------------------------------------------------------------------ Black-Scholes closed form
@st.composite
def strat_cf(draw, tier):
    sigma = draw(st.sampled_from([0.0, 1e-12, 5e-9, 9.9e-9, 1e-8, 2e-8, 1e-6, 1e-3])) if draw(st.booleans()) else draw(_f(0.01, 0.8))
    T = draw(st.sampled_from([0.0, 1e-12, 9.9e-9, 1e-8, 2e-8, 1e-4])) if draw(st.integers(0, 3)) == 0 else draw(_f(0.05, 5.0))
    spot = draw(_f(1.0, 300.0))
    return {"sigma": sigma, "T": T, "spot": spot, "r": draw(_f(0.0, 0.1)), "d": draw(_f(0.0, 0.1)),
            "moneyness": [draw(_f(0.3, 3.0)) for _ in range(3)]}


def body_cf(case):
    """CFBlackScholes, including its degenerate branch (sigma, spot or maturity below 1e-8): parity with its own forward,
    arbitrage bounds, the zero-volatility limit, and continuity across the branch threshold"""
    from rpylib.model.levymodel.mixed.blackscholes import BlackScholesModel, BlackScholesParameters

    out = []
    spot, r, d, T, sig = case["spot"], case["r"], case["d"], case["T"], case["sigma"]

    def cf_of(sigma):
        return BlackScholesModel(spot=spot, r=r, d=d, parameters=BlackScholesParameters(sigma=sigma)).closed_form

    cf = cf_of(sig)
    df = math.exp(-r * T)
    F = spot * math.exp((r - d) * T)
    sd = sig * math.sqrt(T)
    detail = f"case={case}"
    branch = "degenerate" if (sig < 1e-8 or T < 1e-8) else "regular"
    for mny in case["moneyness"]:
        K = float(f"{F * mny:.6g}")
        c, p_, f = float(cf.call(K, T)), float(cf.put(K, T)), float(cf.forward(K, T))
        tol = 1e-10 * max(spot, K)
        if abs(f - df * (F - K)) > tol:
            out.append(Violation(f"C18/closed-form/{branch}/forward", f"K={K}: {f} vs df(F-K)={df * (F - K)}; {detail}"))
        if abs(c - p_ - f) > tol:
            out.append(Violation(f"C18/closed-form/{branch}/call-minus-put-is-not-the-forward", f"K={K}: {c} - {p_} vs {f}; {detail}"))
        if c < max(df * (F - K), 0.0) - tol or c > df * F + tol or p_ < max(df * (K - F), 0.0) - tol or p_ > df * K + tol:
            out.append(Violation(f"C18/closed-form/{branch}/outside-the-arbitrage-bounds",
                                 f"K={K}: call {c}, put {p_}, intrinsic {df * (F - K)}, df F {df * F}; {detail}"))
        # time value <= df * F * sd / sqrt(2 pi) (at the money bound, valid for every strike)
        if c - max(df * (F - K), 0.0) > df * F * sd * 0.3989422804014327 + tol:
            out.append(Violation(f"C18/closed-form/{branch}/time-value-above-its-bound",
                                 f"K={K}: call {c} intrinsic {max(df * (F - K), 0.0)} stddev {sd}; {detail}"))
        dg = float(np.asarray(cf.digital(np.array([K]), T), dtype=float).ravel()[0])
        if dg < -1e-12 or dg > df + 1e-12:
            out.append(Violation(f"C18/closed-form/{branch}/digital-outside-[0,df]", f"K={K}: {dg}; {detail}"))
        if out:
            break
    return out


def classify_cf(case):
    deg = case["sigma"] < 1e-8 or case["T"] < 1e-8
    labels = ["degenerate-branch" if deg else "regular-branch", "r!=d" if abs(case["r"] - case["d"]) > 1e-3 else "r~d",
              "sigma<eps" if case["sigma"] < 1e-8 else "sigma>=eps", "T<eps" if case["T"] < 1e-8 else "T>=eps"]
    return labels, deg or case["sigma"] <= 1e-3


SUBCHECKS = [
    SubCheck("cos-arbitrage-bounds", body_arbitrage, classify_arbitrage,
             rule="exponential model (BS, HEM, Merton, VG, CGMY in five branches up to y=1.8) x maturity in [0.1,3] x "
                  "ladder of 3..9 strikes inside the shrunk truncation range: parity with the model forward, bounds, "
                  "monotone and convex in strike, digital in [0,df] decreasing and = -dC/dK, scalar = vector strikes, "
                  "density >= 0 and of mass 1, price() dispatch; non-trivial = not BS or T outside [0.5,1.5]",
             strategy=strat_case, budget={"quick": 240, "thorough": 4000}, shards={"quick": 16, "thorough": 16}),
    SubCheck("pricers-against-each-other", body_cross, classify_cross,
             rule="BS: COS vs closed form (calls, puts, digital, forward, parity) and FFT; other families: COS vs FFT; "
                  "VG vs its CGMY(1/nu, lambda_m, lambda_p, 0) parametrisation",
             strategy=strat_cross, budget={"quick": 160, "thorough": 2400}, shards={"quick": 16, "thorough": 16}),
    SubCheck("pricer-object-reuse", body_reuse, classify_reuse,
             rule="one COSPricer / FFTPricer object used for a generated sequence of 2..6 calls (call, put, digital, "
                  "forward, density, cdf; maturities in [0.05,5]) against a fresh pricer per call: bitwise equal; "
                  "non-trivial = at least two different maturities",
             strategy=strat_reuse, budget={"quick": 480, "thorough": 2000}, shards={"quick": 16, "thorough": 16}),
    SubCheck("black-scholes-closed-form", body_cf, classify_cf,
             rule="CFBlackScholes over spot, r, d, volatility (incl. 0 and values on both sides of the 1e-8 threshold of "
                  "its degenerate branch) x maturity (incl. 0 and values around 1e-8) x three strikes: forward = df(F-K), "
                  "call - put = forward, arbitrage bounds, time value <= df F sigma sqrt(T)/sqrt(2 pi) (so the "
                  "zero-volatility limit is the discounted intrinsic value against the forward), digital in [0,df]; "
                  "non-trivial = degenerate branch or volatility <= 1e-3",
             strategy=strat_cf, budget={"quick": 4800, "thorough": 24000}, shards={"quick": 16, "thorough": 16},
             essential_labels=("degenerate-branch", "sigma<eps")),
]
