#!/bin/bash
# development helper: run every claimed check at a tier and print one summary line each
tier=${1:-quick}
for p in C01 C02 C03 C04 C05 C06 C07 C08 C09 C10 C11 C12 C13 C14 C15 C16 C17 C18 C19 C20; do
  out=$(./check $p --tier $tier ${2:+--no-evidence} 2>&1); code=$?
  echo "$p exit=$code $(echo "$out" | grep -E "^$p tier=" | tail -1)"
  echo "$out" | grep -E "^VIOLATION|HARNESS-ERROR|^  violation" | cut -c1-300 | head -5
done
