"""Independent numerical oracles: quadrature of a model's own density.

`nu_integral(nu, a, b, n)` integrates x^n * nu(x) over [a, b] (a < b, either may be infinite) by
 * splitting at 0, at decade points 1e-8 .. 1e3 on each side and at caller-supplied hints,
 * using the substitution x = +-exp(-s) on the piece adjacent to 0 (integrable singularities),
 * scipy.integrate.quad on every piece with tight tolerances.
Returns (value, scale, err) where scale = integral of |x^n nu| (so that a tolerance relative to scale
cannot be defeated by cancellation) and err the sum of quad's own error estimates.
"""
from __future__ import annotations

import math
import warnings

import numpy as np
from scipy.integrate import quad

DECADES = [10.0 ** k for k in range(-8, 4)]
INF = float("inf")


def _quad(f, a, b):
    with warnings.catch_warnings():
        warnings.simplefilter("ignore")
        v, e = quad(f, a, b, epsabs=1e-14, epsrel=1e-12, limit=400)
    return v, e


def _half_line(dens, a, b, n, hints, sign):
    """integral over [a, b] with 0 <= a < b <= inf of x^n dens(sign*x) (sign handled by caller)."""
    tot, tot_abs, err = 0.0, 0.0, 0.0
    pts = sorted({p for p in DECADES + [abs(h) for h in hints if h * sign > 0] if a < p < b})
    edges = [a] + pts + [b]
    for lo, hi in zip(edges[:-1], edges[1:]):
        if hi <= lo:
            continue
        if lo == 0.0:
            # x = exp(-s), s in [-ln(hi), inf)
            def g(s, _n=n):
                x = math.exp(-s)
                if x == 0.0:
                    return 0.0
                return (x ** (_n + 1)) * float(dens(sign * x))

            s0 = -math.log(hi)
            # integrate in chunks of s so that slow decays (n - y small) stay accurate; beyond
            # x = hi*exp(-120) every density here is a pure power law (tempering factor == 1.0 in
            # floating point), so g(s) is exactly exponential in s and the tail is g(sc)/beta.
            v, e = 0.0, 0.0
            cuts = [s0 + k for k in (0, 5, 20, 60, 120)]
            for c0, c1 in zip(cuts[:-1], cuts[1:]):
                vv, ee = _quad(g, c0, c1)
                v += vv
                e += ee
            sc = cuts[-1]
            g1, g0 = g(sc), g(sc - 1.0)
            if g1 != 0.0:
                beta = math.log(g0 / g1) if (g0 > 0) == (g1 > 0) and g0 != 0.0 else 0.0  # (no product: it may underflow)
                if beta <= 1e-3:
                    return float("nan"), float("nan"), float("nan")  # not integrable at 0
                v += g1 / beta
        else:
            def f(x, _n=n):
                return (x ** _n) * float(dens(sign * x))

            v, e = _quad(f, lo, hi)
        tot += v
        tot_abs += abs(v)
        err += e
    return tot, tot_abs, err


def nu_integral(dens, a, b, n=0, hints=()):
    """integral of x^n dens(x) over [a, b]; returns (value, scale, quad_error)."""
    if a > b:
        raise ValueError("a > b")
    if a == b:
        return 0.0, 0.0, 0.0
    val, scale, err = 0.0, 0.0, 0.0
    if b > 0:
        lo = max(a, 0.0)
        v, s, e = _half_line(dens, lo, b, n, hints, +1)
        val += v
        scale += s
        err += e
    if a < 0:
        hi = min(b, 0.0)
        # integral_{a}^{hi} x^n dens(x) dx = (-1)^n integral_{-hi}^{-a} u^n dens(-u) du
        v, s, e = _half_line(dens, -hi, -a, n, hints, -1)
        sg = -1.0 if n % 2 else 1.0
        val += sg * v
        scale += s
        err += e
    return val, scale, err


def close(a, b, scale, rel=1e-7, abs_tol=1e-11, extra=0.0):
    if not (np.isfinite(a) and np.isfinite(b)):
        return False
    return abs(a - b) <= rel * max(abs(scale), abs(b)) + abs_tol + extra
