"""Entry point:  python -B -m vlib.run <ID> [--tier quick|thorough] [--replay file] [--sub name]

Exit codes: 0 held on everything explored (known findings allowed); 1 a violation that
known_findings.json does not list (prints ``VIOLATION property=<id> replay=<path>``);
2 harness error (never prints VIOLATION).
"""
from __future__ import annotations

from . import env  # noqa: F401  (must be first: sys.path, environment)

import argparse
import json
import os
import sys
import time
import traceback
from concurrent.futures import ProcessPoolExecutor, as_completed
from importlib import import_module

from .core import HarnessError, SubCheck, case_hash, run_body, run_shard

ROOT = env.VERIF_ROOT
KNOWN_FILE = os.path.join(ROOT, "known_findings.json")
NPROC = int(os.environ.get("VERIF_NPROC", "16"))

ASSUMPTIONS_COMMON = [
    "harness shims for gmpy2.qdiv (fractions.Fraction) and tqdm (identity) are part of the trusted base",
    "scipy.integrate.quad / numpy reference computations in the harness are trusted as oracles",
    "generated-input search: held on everything explored, not a proof of absence",
]


def load_known(prop_id: str):
    if not os.path.exists(KNOWN_FILE):
        return [], []
    with open(KNOWN_FILE) as f:
        data = json.load(f)
    opens = [e for e in data.get("open", []) if e["property"] == prop_id]
    fixed = [e for e in data.get("fixed", []) if e["property"] == prop_id]
    return opens, fixed


def write_replay(prop_id: str, v: dict) -> str:
    d = os.path.join(ROOT, "replays")
    os.makedirs(d, exist_ok=True)
    h = case_hash({"k": v["key"], "c": v["case"]})[:10]
    safe_sub = v["sub"].replace("/", "_")
    path = os.path.join(d, f"{prop_id}-{safe_sub}-{h}.json")
    with open(path, "w") as f:
        json.dump({"property": prop_id, "subcheck": v["sub"], "key": v["key"],
                   "detail": v["detail"], "case": v["case"]}, f, indent=1, default=str)
    return path


def do_replay(prop_id: str, mod, path: str, known_keys: set, quiet=False):
    with open(path) as f:
        rep = json.load(f)
    sc = next((s for s in mod.SUBCHECKS if s.name == rep["subcheck"]), None)
    if sc is None:
        raise HarnessError(f"replay {path}: unknown sub-check {rep['subcheck']}")
    viols = run_body(sc, rep["case"])
    return viols


def main(argv=None) -> int:
    ap = argparse.ArgumentParser()
    ap.add_argument("prop")
    ap.add_argument("--tier", default=os.environ.get("VERIF_TIER", "quick"))
    ap.add_argument("--replay", default=None)
    ap.add_argument("--sub", default=None, help="only run sub-checks whose name contains this")
    ap.add_argument("--no-evidence", action="store_true")
    args = ap.parse_args(argv)
    tier = args.tier if args.tier in ("quick", "thorough") else "quick"
    prop_id = args.prop.upper()
    try:
        seed = int(os.environ.get("VERIF_SEED", "1"))
    except ValueError:
        seed = 1

    import warnings

    warnings.filterwarnings("ignore")
    import logging

    logging.disable(logging.CRITICAL)  # the table sampler logs an error before raising its documented ValueError
    t0 = time.time()
    try:
        mod = import_module(f"props.{prop_id.lower()}")
    except Exception:  # noqa: BLE001
        traceback.print_exc()
        print(f"HARNESS-ERROR property={prop_id} cannot import check module or rpylib")
        return 2

    opens, fixed = load_known(prop_id)
    known_keys = {e["key"] for e in opens}

    # ---------------------------------------------------------------- replay mode
    if args.replay:
        try:
            viols = do_replay(prop_id, mod, args.replay, known_keys)
        except HarnessError as e:
            print(f"HARNESS-ERROR property={prop_id} {e}")
            return 2
        unknown = [v for v in viols if v.key not in known_keys and v.key not in ("INCONCLUSIVE", "REJECTED", "NONTRIVIAL")
                   and not v.key.startswith("LABEL:")]
        for v in viols:
            print(f"  replay: {v.key}: {v.detail}")
        if unknown:
            print(f"VIOLATION property={prop_id} replay={args.replay}")
            return 1
        print(f"replay {args.replay}: no unknown violation reproduced")
        return 0

    # ---------------------------------------------------------------- known findings still reproduce?
    known_status = []
    for e in opens:
        rp = os.path.join(ROOT, e["replay"]) if e.get("replay") else None
        reproduced = None
        if rp and os.path.exists(rp):
            try:
                vs = do_replay(prop_id, mod, rp, known_keys)
                reproduced = any(v.key == e["key"] for v in vs)
            except HarnessError as ex:
                print(f"HARNESS-ERROR property={prop_id} known-finding replay failed: {ex}")
                return 2
        known_status.append({"key": e["key"], "reproduced": reproduced})
        if reproduced or reproduced is None:
            print(f"KNOWN-FINDING: property={prop_id} {e['key']} {e['what']}")
        else:
            print(f"NOTE: listed finding {e['key']} no longer reproduces on its pinned replay "
                  f"(not an alarm; the entry suppresses nothing when the code is right)")

    # ---------------------------------------------------------------- plan shards
    subs = [s for s in mod.SUBCHECKS if (args.sub is None or args.sub in s.name)]
    tasks = []
    for sc in subs:
        if sc.enumerate is not None:
            cases = list(sc.enumerate(tier))
            n = max(1, min(sc.shards[tier], len(cases)))
            for i in range(n):
                tasks.append((sc.name, i, n, cases[i::n]))
        else:
            n = sc.shards[tier]
            for i in range(n):
                tasks.append((sc.name, i, n, None))

    results = []
    harness_errors = []
    with ProcessPoolExecutor(max_workers=NPROC) as ex:
        futs = {ex.submit(run_shard, prop_id, name, tier, seed, i, n, sorted(known_keys), cases):
                (name, i) for (name, i, n, cases) in tasks}
        for fut in as_completed(futs):
            name, i = futs[fut]
            try:
                r = fut.result()
            except Exception as e:  # noqa: BLE001
                harness_errors.append(f"{name}[{i}]: worker died: {e!r}")
                continue
            if r["error"]:
                harness_errors.append(f"{name}[{i}]: {r['error']}")
            results.append(r)

    # ---------------------------------------------------------------- merge
    per_sub = {}
    all_nt = set()
    labels = {}
    samples = {}
    excluded = {}
    inconclusive = 0
    rejected = 0
    evaluations = 0
    violations = {}
    for r in results:
        ps = per_sub.setdefault(r["sub"], {"evaluations": 0, "nontrivial": set(), "wall_s": 0.0,
                                           "violations": 0})
        ps["evaluations"] += r["evaluations"]
        ps["nontrivial"].update(r["nontrivial_hashes"])
        ps["wall_s"] = max(ps["wall_s"], r["wall_s"])
        evaluations += r["evaluations"]
        all_nt.update((r["sub"], h) for h in r["nontrivial_hashes"])
        for k, c in r["labels"].items():
            labels[f"{r['sub']}:{k}"] = labels.get(f"{r['sub']}:{k}", 0) + c
        for k, c in r["samples"].items():
            samples.setdefault(f"{r['sub']}:{k}", c)
        for k, c in r["excluded_known"].items():
            excluded[k] = excluded.get(k, 0) + c
        inconclusive += r["inconclusive"]
        rejected += r.get("rejected", 0)
        for v in r["violations"]:
            violations.setdefault(v["key"], v)
            ps["violations"] += 1

    missing_essential = []
    for sc in subs:
        for lab in sc.essential_labels:
            if labels.get(f"{sc.name}:{lab}", 0) == 0:
                missing_essential.append(f"{sc.name}:{lab}")

    replay_paths = []
    for key, v in sorted(violations.items()):
        p = write_replay(prop_id, v)
        replay_paths.append(p)
        print(f"  violation {key}: {v['detail'][:600]}")
        print(f"VIOLATION property={prop_id} replay={p}")

    wall = time.time() - t0
    sample_list = [{"label": k, "case": c} for k, c in sorted(samples.items())][:24]
    if not sample_list:
        sample_list = [{"label": "none", "case": None}]
    evidence = {
        "property_id": prop_id,
        "tier": tier,
        "seed": seed,
        "level": "exploration",
        "coverage": {
            "evaluations": evaluations,
            "distinct_nontrivial": len(all_nt),
            "rule": " || ".join(f"[{sc.name}] {sc.rule}" for sc in subs),
            "samples": sample_list,
            "labels": dict(sorted(labels.items())),
            "subchecks": {k: {"evaluations": v["evaluations"],
                              "distinct_nontrivial": len(v["nontrivial"]),
                              "max_shard_wall_s": round(v["wall_s"], 2),
                              "violations": v["violations"]} for k, v in sorted(per_sub.items())},
            "excluded_known": excluded,
            "known_findings": known_status,
            "fixed_findings": [f"{e.get('commit','?')} {e['what']}" for e in fixed],
            "inconclusive": inconclusive,
            "rejected_outside_domain": rejected,
            "exhaustive": bool(subs) and all(sc.exhaustive for sc in subs),
            "violation_keys": sorted(violations),
            "harness_errors": harness_errors[:5],
        },
        "assumptions": ASSUMPTIONS_COMMON + list(getattr(mod, "ASSUMPTIONS", [])),
        "wall_s": round(wall, 2),
        "violations": len(violations),
    }
    if not args.no_evidence and args.sub is None:
        os.makedirs(os.path.join(ROOT, "evidence"), exist_ok=True)
        with open(os.path.join(ROOT, "evidence", f"{prop_id}.json"), "w") as f:
            json.dump(evidence, f, indent=1, default=str)

    for k, v in sorted(per_sub.items()):
        print(f"  [{k}] evaluations={v['evaluations']} distinct_nontrivial={len(v['nontrivial'])} "
              f"max_shard_wall={v['wall_s']:.1f}s")
    if excluded:
        print(f"  excluded (known findings): {excluded}")
    print(f"{prop_id} tier={tier} seed={seed} evaluations={evaluations} "
          f"distinct_nontrivial={len(all_nt)} violations={len(violations)} "
          f"inconclusive={inconclusive} rejected={rejected} wall={wall:.1f}s")

    if violations:
        return 1
    if harness_errors:
        for e in harness_errors[:5]:
            print(f"HARNESS-ERROR property={prop_id} {e}")
        return 2
    if missing_essential:
        print(f"HARNESS-ERROR property={prop_id} essential labels never generated: {missing_essential}")
        return 2
    return 0


if __name__ == "__main__":
    sys.exit(main())
