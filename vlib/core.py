"""Core data types and the shard runner.

A property module ``props/cNN.py`` exposes ``PROPERTY_ID`` and ``SUBCHECKS`` (list of SubCheck).
A sub-check separates *drawing* a JSON-serialisable ``case`` (Hypothesis strategy, or an explicit
enumeration for small finite domains) from the *body* that decides the case and returns a list of
``Violation``.  That separation gives replay for free: a replay file stores the case, and
``--replay`` calls ``body(case)`` directly, bypassing Hypothesis.
"""
from __future__ import annotations

import hashlib
import json
import os
import sys
import time
import traceback
from dataclasses import dataclass, field
from typing import Any, Callable, Iterable, Optional

from . import env


class HarnessError(Exception):
    """The harness itself misbehaved (never reported as a violation; exit code 2)."""


@dataclass
class Violation:
    key: str
    detail: str = ""

    def to_json(self):
        return {"key": self.key, "detail": self.detail}


@dataclass
class SubCheck:
    name: str
    body: Callable[[dict], list]
    classify: Callable[[dict], tuple]  # case -> (labels: list[str], nontrivial: bool)
    rule: str  # how cases are generated and what makes one non-trivial
    strategy: Optional[Callable[[str], Any]] = None  # tier -> hypothesis strategy
    enumerate: Optional[Callable[[str], Iterable[dict]]] = None  # tier -> iterable of cases
    budget: dict = field(default_factory=lambda: {"quick": 100, "thorough": 1000})
    shards: dict = field(default_factory=lambda: {"quick": 4, "thorough": 16})
    essential_labels: tuple = ()
    exhaustive: bool = False
    # maximum number of body executions spent on shrinking one failure
    shrink_budget: dict = field(default_factory=lambda: {"quick": 150, "thorough": 1500})


def case_hash(case) -> str:
    return hashlib.sha1(
        json.dumps(case, sort_keys=True, default=str).encode()
    ).hexdigest()[:16]


def _frame_owner(filename: str) -> str:
    if not os.path.isabs(filename):  # frames of compiled extensions carry relative names ("numpy/random/mtrand.pyx")
        return "other"
    f = os.path.abspath(filename)
    rp = os.path.join(env.REPO_ROOT, "rpylib")
    if f.startswith(rp + os.sep) or f.startswith("/repo/rpylib/"):
        return "rpylib"
    if f.startswith(env.VERIF_ROOT + os.sep):
        return "harness"
    return "other"


def exception_to_violation(sub: str, exc: BaseException) -> Optional[Violation]:
    """Bucket an exception escaping the body by (type, innermost rpylib/harness frame).

    Innermost frame (ignoring third-party / stdlib frames) inside rpylib  => the library raised
    where the body did not expect it => violation keyed by type and function.
    Innermost such frame inside /verif => harness bug => None (caller raises HarnessError).
    """
    tb = traceback.extract_tb(exc.__traceback__)
    for fr in reversed(tb):
        owner = _frame_owner(fr.filename)
        if owner == "rpylib":
            rel = fr.filename.split("rpylib/", 1)[-1]
            key = f"{sub}/unexpected-exception/{type(exc).__name__}@{rel}:{fr.name}"
            detail = "".join(traceback.format_exception_only(type(exc), exc)).strip()
            return Violation(key, f"{detail} at {rel}:{fr.lineno} in {fr.name}")
        if owner == "harness":
            # a harness frame is innermost only if no rpylib frame lies below it
            return None
    return None


def run_body(sc: SubCheck, case) -> list:
    try:
        out = sc.body(case)
    except HarnessError:
        raise
    except Exception as exc:  # noqa: BLE001 - bucketing is the point
        v = exception_to_violation(sc.name, exc)
        if v is None:
            raise HarnessError(
                f"{sc.name}: harness exception on case {json.dumps(case, default=str)[:400]}:\n"
                + "".join(traceback.format_exception(type(exc), exc, exc.__traceback__))
            ) from exc
        return [v]
    return list(out or [])


class _Found(Exception):
    pass


def run_shard(prop_id: str, sub_name: str, tier: str, seed: int, shard: int, nshards: int,
              known_open: list, cases: Optional[list] = None) -> dict:
    """Run one shard of one sub-check; returns counters, samples and violations (picklable)."""
    from importlib import import_module
    import warnings

    warnings.filterwarnings("ignore")
    import logging

    logging.disable(logging.CRITICAL)  # the table sampler logs an error before raising its documented ValueError
    t0 = time.time()
    mod = import_module(f"props.{prop_id.lower()}")
    sc: SubCheck = next(s for s in mod.SUBCHECKS if s.name == sub_name)
    known = set(known_open)

    res = {
        "sub": sub_name, "shard": shard, "evaluations": 0, "nontrivial_hashes": set(),
        "labels": {}, "samples": {}, "violations": [], "excluded_known": {},
        "inconclusive": 0, "rejected": 0, "error": None, "wall_s": 0.0, "exhausted": False,
    }

    def account(case):
        res["evaluations"] += 1
        labels, nt = sc.classify(case)
        h = case_hash(case)
        if nt:
            res["nontrivial_hashes"].add(h)
        for lab in labels:
            res["labels"][lab] = res["labels"].get(lab, 0) + 1
            if lab not in res["samples"] and len(res["samples"]) < 12:
                res["samples"][lab] = case
        return h

    def decide(case):
        viols = run_body(sc, case)
        unknown = []
        for v in viols:
            if v.key.startswith("LABEL:"):
                # run-time classification emitted by the body (what the run actually did)
                lab = v.key[6:]
                res["labels"][lab] = res["labels"].get(lab, 0) + 1
                if lab not in res["samples"] and len(res["samples"]) < 12:
                    res["samples"][lab] = case
            elif v.key == "NONTRIVIAL":
                res["nontrivial_hashes"].add(case_hash(case))
            elif v.key == "INCONCLUSIVE":
                res["inconclusive"] += 1
            elif v.key == "REJECTED":
                res["rejected"] = res.get("rejected", 0) + 1
            elif v.key in known:
                res["excluded_known"][v.key] = res["excluded_known"].get(v.key, 0) + 1
            else:
                unknown.append(v)
        return unknown

    try:
        if cases is not None:  # explicit enumeration slice
            for case in cases:
                account(case)
                unknown = decide(case)
                seen = {v["key"] for v in res["violations"]}
                for v in unknown:
                    if v.key not in seen:
                        seen.add(v.key)
                        res["violations"].append(
                            {"key": v.key, "detail": v.detail, "case": case, "sub": sub_name})
            res["exhausted"] = True
        else:
            _run_hypothesis(sc, tier, seed, shard, nshards, res, account, decide)
    except HarnessError as e:
        res["error"] = str(e)
    except Exception as e:  # noqa: BLE001
        res["error"] = "".join(traceback.format_exception(type(e), e, e.__traceback__))
    res["wall_s"] = time.time() - t0
    res["nontrivial_hashes"] = sorted(res["nontrivial_hashes"])
    return res


def _run_hypothesis(sc, tier, seed, shard, nshards, res, account, decide):
    import hypothesis
    from hypothesis import HealthCheck, Phase, given, settings

    total = sc.budget[tier]
    n_examples = max(1, total // nshards)
    strategy = sc.strategy(tier)
    found_keys: set = set()
    shrink_budget = sc.shrink_budget[tier]

    for attempt in range(6):  # continue the search past each distinct finding
        state = {"target": None, "best": None, "shrinks": 0, "verdicts": {}}
        derived = (seed * 1000003 + shard * 7919 + attempt * 104729
                   + int(hashlib.sha1(sc.name.encode()).hexdigest()[:6], 16)) % (2**63)

        @hypothesis.seed(derived)
        @settings(max_examples=n_examples, database=None, deadline=None, derandomize=False,
                  report_multiple_bugs=False, print_blob=False,
                  suppress_health_check=list(HealthCheck),
                  phases=[Phase.generate, Phase.shrink])
        @given(strategy)
        def test(case):
            h = None
            if state["target"] is not None:
                # shrinking phase: bounded number of body executions, verdicts cached so that the
                # final replay of the minimal example is consistent
                h = case_hash(case)
                if h in state["verdicts"]:
                    if state["verdicts"][h]:
                        raise _Found()
                    return
                if state["shrinks"] >= shrink_budget:
                    return
                state["shrinks"] += 1
            account(case)
            unknown = [v for v in decide(case) if v.key not in found_keys]
            if state["target"] is None:
                if unknown:
                    state["target"] = unknown[0].key
                    state["best"] = (case, unknown[0])
                    state["verdicts"][case_hash(case)] = True
                    raise _Found()
                return
            hit = next((v for v in unknown if v.key == state["target"]), None)
            state["verdicts"][h] = hit is not None
            if hit is not None:
                state["best"] = (case, hit)
                raise _Found()

        try:
            test()
        except _Found:
            pass
        except hypothesis.errors.Flaky:
            pass  # verdict cache / nondeterministic code under test: keep the best failing case
        if state["best"] is None:
            break
        case, v = state["best"]
        found_keys.add(v.key)
        res["violations"].append({"key": v.key, "detail": v.detail, "case": case, "sub": sc.name})
