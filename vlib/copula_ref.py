"""Reference Levy-copula model written in the harness from first principles (Kallsen & Tankov 2006).

* marginal tail integrals U_i(x) = sgn(x) nu_i(I(x)), I(x) = (x, inf) for x >= 0 and (-inf, x] for x < 0,
  obtained by *quadrature of the marginal densities* (optionally truncated to an interval);
* copulas re-typed from the paper: Clayton (eq. 7 of Tankov's review), independence (4.2), complete
  dependence (4.3);
* I-margins F^I(u_I) = sum over (u_j)_{j not in I} in {-inf, +inf} of F(u) prod sgn(u_j);
* mass of a rectangle not containing the origin: recursion on straddling coordinates, signed corner sum
  of nu(I(c_1) x ... x I(c_d)) = F(U(c)) prod sgn(c_i).
Nothing here imports rpylib's copula or mass code; only the marginal *densities* nu_i(x) are used.
"""
from __future__ import annotations

import itertools
import math

import numpy as np

from .models import activity, build_model, quad_hints
from .oracles import nu_integral

INF = float("inf")


def sgn(x):
    """sign with -0.0 (the harness's code for 'left limit at zero') on the negative side"""
    return math.copysign(1.0, x) if x == 0 else (-1.0 if x < 0 else 1.0)


class RefCopula:
    def __init__(self, cspec, d):
        self.spec = cspec
        self.d = d

    def F(self, u):
        u = [float(v) for v in u]
        t = self.spec["type"]
        if any(v == 0 for v in u):
            return 0.0
        if t == "clayton":
            theta, eta = self.spec["theta"], self.spec["eta"]
            s = 0.0
            for v in u:
                if not math.isinf(v):
                    with np.errstate(over="ignore"):
                        s += float(np.float64(abs(v)) ** np.float64(-theta))  # inf for tiny |v|: F -> 0
            if s == 0.0:
                return INF * 1.0 if all(v > 0 for v in u) else float("nan")
            prod_sign = 1.0
            for v in u:
                prod_sign *= sgn(v)
            w = eta if prod_sign > 0 else -(1.0 - eta)
            if math.isinf(s):
                return 0.0
            return 2.0 ** (2 - len(u)) * s ** (-1.0 / theta) * w
        if t == "independent":
            tot = 0.0
            for i, v in enumerate(u):
                if math.isinf(v):
                    continue
                if all(u[j] == INF for j in range(len(u)) if j != i):
                    tot += v
            return tot
        if t == "dependent":
            if all(v > 0 for v in u):
                return min(u)
            if all(v < 0 for v in u):
                return min(abs(v) for v in u) * ((-1.0) ** len(u))
            return 0.0
        raise ValueError(t)

    def margin(self, idx, u_sub):
        """I-margin of F at u_sub (values for coordinates idx)."""
        idx = list(idx)
        if len(idx) == self.d:
            return self.F(u_sub)
        rest = [j for j in range(self.d) if j not in idx]
        tot = 0.0
        for combo in itertools.product([-INF, INF], repeat=len(rest)):
            u = [0.0] * self.d
            for i, v in zip(idx, u_sub):
                u[i] = v
            sg = 1.0
            for j, v in zip(rest, combo):
                u[j] = v
                sg *= sgn(v)
            tot += sg * self.F(u)
        return tot


class RefCopulaModel:
    """margins: list of model specs; truncations: list of (l, r) or None per margin."""

    def __init__(self, margins, cspec, truncations=None):
        self.d = len(margins)
        self.specs = margins
        self.nus = [build_model(m, force_exp=False).levy_triplet.nu for m in margins]
        self.hints = [quad_hints(m) for m in margins]
        self.trunc = truncations or [(-INF, INF)] * self.d
        self.copula = RefCopula(cspec, self.d)
        self._cache = {}

    def U(self, i, x):
        """marginal tail integral of the (truncated) i-th margin."""
        neg = sgn(x) < 0
        key = (i, float(x), neg)
        if key in self._cache:
            return self._cache[key]
        l, r = self.trunc[i]
        if x == 0 and (l < 0 < r) and not activity(self.specs[i])[0]:
            val = -INF if neg else INF  # infinite activity: U(0+-) = +-inf
        elif not neg:
            a, b = max(x, l), r
            val = nu_integral(self.nus[i], a, b, 0, self.hints[i])[0] if a < b else 0.0
        else:
            a, b = l, min(x, r)
            val = -nu_integral(self.nus[i], a, b, 0, self.hints[i])[0] if a < b else 0.0
        if x == INF or x == -INF:
            val = 0.0
        self._cache[key] = val
        return val

    def nu_orthant(self, idx, c):
        """nu^I( I(c_1) x ... ) >= 0 for the I-margin idx at corner c."""
        us = [self.U(i, ci) for i, ci in zip(idx, c)]
        if len(idx) == 1:
            return abs(us[0])
        f = self.copula.margin(idx, us)
        sg = 1.0
        for ci in c:
            sg *= sgn(ci)
        return f * sg

    def mass(self, a, b, idx=None):
        """mass of prod (a_i, b_i] under the idx-margin; the rectangle must not contain the origin."""
        idx = list(range(self.d)) if idx is None else list(idx)
        a, b = list(a), list(b)
        for k, (ai, bi) in enumerate(zip(a, b)):
            if ai < 0 < bi:
                if len(idx) == 1:
                    raise ValueError("rectangle contains the origin")
                idx_r = idx[:k] + idx[k + 1:]
                a_r, b_r = a[:k] + a[k + 1:], b[:k] + b[k + 1:]
                up_a, up_b = list(a), list(b)
                up_a[k], up_b[k] = bi, INF
                lo_a, lo_b = list(a), list(b)
                lo_a[k], lo_b[k] = -INF, ai
                return self.mass(a_r, b_r, idx_r) - self.mass(up_a, up_b, idx) - self.mass(lo_a, lo_b, idx)
        tot = 0.0
        for corner in itertools.product([0, 1], repeat=len(idx)):
            c, w = [], 1.0
            for k, pick in enumerate(corner):
                ai, bi = a[k], b[k]
                if bi > 0:  # positive side: 1_(a,inf) - 1_(b,inf)
                    c.append(ai if pick == 0 else bi)
                    w *= 1.0 if pick == 0 else -1.0
                else:  # negative side: 1_(-inf,b] - 1_(-inf,a]; an end point b = 0 is the left limit 0-, coded -0.0
                    c.append((-0.0 if bi == 0 else bi) if pick == 0 else ai)
                    w *= 1.0 if pick == 0 else -1.0
            if any(math.isinf(ci) for ci in c):
                continue  # I(+-inf) is empty
            tot += w * self.nu_orthant(idx, c)
        return tot


def cells_of_axis(axis, origin, middle=None):
    """Reference cells from the axis alone: [mid(x_{k-1},x_k), mid(x_k,x_{k+1})], clipped at the ends."""
    axis = [float(x) for x in axis]
    mid = middle or (lambda x, y: 0.5 * (x + y))
    n = len(axis)
    cells = []
    for k in range(n):
        lo = axis[0] if k == 0 else mid(axis[k - 1], axis[k])
        hi = axis[-1] if k == n - 1 else mid(axis[k], axis[k + 1])
        cells.append((lo, hi))
    return cells
