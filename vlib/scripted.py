"""Scripted collaborators for the Monte-Carlo engines.

`ScriptedCoupling` satisfies the duck-typed interface the multilevel engine uses.  Every sample it hands
out carries an identifiable value and is recorded in a *ledger that lives outside the object* (the engine
deep-copies the coupling process once per level): the ledger is the reference model of what was simulated.
"""
from __future__ import annotations

import copy
import math

import numpy as np

LEDGERS = {}


class PassBudgetExceeded(Exception):
    pass


class Ledger:
    def __init__(self):
        self.samples = {}      # level -> list of (fine, coarse) raw terminal values, in simulation order
        self.events = []       # ("sim", level) / ("next_level", new_level) / ("precomp", level, n)
        self.variates = {}     # level -> list of tuples of raw numpy variates consumed per sample (RNG mode)
        self.mids = {}         # level -> list of (fine, coarse) values at the intermediate date (laws with "mid" only)

    def count(self, level):
        return len(self.samples.get(level, []))


def new_ledger(key):
    LEDGERS[key] = Ledger()
    return LEDGERS[key]


def _hash01(seed, level, n, k=0):
    x = math.sin(seed * 12.9898 + level * 78.233 + n * 37.719 + k * 4.1414) * 43758.5453
    return x - math.floor(x)


class ScriptedModel:
    def __init__(self, representation):
        self.process_representation = representation

    def dimension_model(self):
        return 1

    def dimension(self):
        return 1

    def characteristic_function(self, t, x):
        return 1.0

    def x0_value(self):
        return 0.0


class ScriptedFine:
    def __init__(self, representation, df):
        self.process_representation = representation
        self._df = df

    def deterministic_path(self, times):
        return np.zeros_like(np.asarray(times, dtype=float))

    def df(self, t):
        return self._df


class ScriptedCoupling:
    """law = dict(seed, base, m0, alpha, s0, beta, cost0, gamma, maturity); mode 'hash' or 'rng'."""

    def __init__(self, ledger_key, law, df=1.0, mode="hash", max_samples=2_000_000, zero_cost_levels=(), max_level=None):
        from rpylib.process.process import ProcessRepresentation

        self.ledger_key = ledger_key
        self.law = dict(law)
        self.mode = mode
        self.level = 0
        self.model = ScriptedModel(ProcessRepresentation.IDENDITY)
        self.fine_process = ScriptedFine(ProcessRepresentation.IDENDITY, df)
        self.max_samples = max_samples
        self.zero_cost_levels = tuple(zero_cost_levels)
        self.init_calls = 0
        self.max_level = max_level  # harness budget: a run that simulates beyond this level is stopped (ledger kept)

    # ---- engine interface
    def initialisation(self, product, max_step_epsilon=None):
        self.init_calls += 1

    def pre_computation(self, mc_paths, product):
        LEDGERS[self.ledger_key].events.append(("precomp", self.level, int(mc_paths)))

    def reset_one_simulation_cost(self):
        pass

    def one_simulation_cost(self, product):
        if self.level in self.zero_cost_levels:
            return 0.0
        return self.law["cost0"] * 2.0 ** (self.law["gamma"] * self.level)

    def _values(self, level):
        led = LEDGERS[self.ledger_key]
        n = led.count(level)
        if sum(len(v) for v in led.samples.values()) > self.max_samples:
            raise PassBudgetExceeded("sample budget")
        if self.max_level is not None and level > self.max_level and led.count(level) > 0:
            raise PassBudgetExceeded("level budget")
        law = self.law
        if self.mode == "hash":
            z1 = (_hash01(law["seed"], level, n, 0) - 0.5) * math.sqrt(12.0)
            z2 = (_hash01(law["seed"], level, n, 1) - 0.5) * math.sqrt(12.0)
            used = None
        else:
            z1, z2 = (float(v) for v in np.random.normal(size=2))
            used = (z1, z2)
        coarse = law["base"] + law["s_base"] * z1
        mean_l = law["m0"] * 2.0 ** (-law["alpha"] * level)
        sd_l = law["s0"] * 2.0 ** (-0.5 * law["beta"] * level)
        fine = coarse + mean_l + sd_l * z2
        if level in law.get("identical_levels", ()) and level > 0:
            fine = coarse  # fine and coarse payoffs coincide on every path of this level: correction exactly 0
        if level == 0:
            coarse = 0.0
        if law.get("mid"):
            # an intermediate date (path-dependent payoffs): fine and coarse differ there by several level spreads, so
            # that one of the two paths crosses a barrier and the other does not on a fair share of the samples
            z3 = (_hash01(law["seed"], level, n, 2) - 0.5) * math.sqrt(12.0)
            z4 = (_hash01(law["seed"], level, n, 3) - 0.5) * math.sqrt(12.0)
            mid_c = law["base"] + 1.5 * law["s_base"] * z3
            mid_f = mid_c + (3.0 * sd_l + 0.3 * law["s_base"]) * z4
            led.mids.setdefault(level, []).append((mid_f, mid_c))
        led.samples.setdefault(level, []).append((fine, coarse))
        if used is not None:
            led.variates.setdefault(level, []).append(used)
        led.events.append(("sim", level))
        return fine, coarse

    def simulate_one_path(self):
        from rpylib.montecarlo.path import StochasticJumpPath

        fine, _ = self._values(self.level)
        if self.law.get("mid"):
            mid_f, _ = LEDGERS[self.ledger_key].mids[self.level][-1]
            times = np.array([0.0, 0.5 * self.law["maturity"], self.law["maturity"]])
            return StochasticJumpPath(times, np.zeros(3), np.array([0.0, mid_f, fine]))
        times = np.array([0.0, self.law["maturity"]])
        return StochasticJumpPath(times, np.zeros(2), np.array([0.0, fine]))

    def simulate_one_path_with_coupling(self):
        from rpylib.montecarlo.path import StochasticJumpPath

        fine, coarse = self._values(self.level)
        if self.law.get("mid"):
            mid_f, mid_c = LEDGERS[self.ledger_key].mids[self.level][-1]
            times = np.array([0.0, 0.5 * self.law["maturity"], self.law["maturity"]])
            jumps = np.array([[0.0, mid_f, fine], [0.0, mid_c, coarse]])
            return StochasticJumpPath(times, np.zeros((2, 3)), jumps)
        times = np.array([0.0, self.law["maturity"]])
        jumps = np.array([[0.0, fine], [0.0, coarse]])
        return StochasticJumpPath(times, np.zeros((2, 2)), jumps)

    def next_level(self, mc_paths, path_managers, product, max_step_epsilon=None):
        self.level += 1
        LEDGERS[self.ledger_key].events.append(("next_level", self.level))
        if path_managers is not None:
            pm = copy.deepcopy(path_managers[-1])
            pm.deterministic_path = lambda times: np.zeros((2, len(np.atleast_1d(times))))
            path_managers.append(pm)


class ScriptedProcess:
    """Standard-engine collaborator returning a given list of paths, each exactly once, counting the calls."""

    def __init__(self, paths, df, representation=None, dimension=1, x0=0.0, drift=0.0):
        from rpylib.process.process import ProcessRepresentation

        self.paths = paths
        self.calls = 0
        self.process_representation = representation or ProcessRepresentation.IDENDITY
        self._df = df
        self._dimension = dimension
        self.model = ScriptedStdModel(dimension)
        self.x0 = x0
        self.drift = drift
        self.precomp = []

    def dimension(self):
        return self._dimension

    def initialisation(self, product, max_step_epsilon=None):
        pass

    def pre_computation(self, mc_paths, product):
        self.precomp.append(int(mc_paths))

    def deterministic_path(self, times):
        t = np.asarray(times, dtype=float)
        if self._dimension == 1:
            return np.zeros_like(t) + self.x0 + self.drift * t
        return np.zeros((self._dimension, len(t))) + self.x0 + self.drift * t

    def df(self, t):
        return self._df

    def simulate_one_path(self):
        p = self.paths[self.calls]
        self.calls += 1
        return p


class ScriptedStdModel:
    def __init__(self, dimension):
        self._d = dimension
        self.models = [ScriptedStdModel(1) for _ in range(dimension)] if dimension > 1 else []

    def dimension(self):
        return self._d
