"""Grid specs (JSON) -> rpylib CTMC grids, and Hypothesis strategies for them.

The spatial step is drawn relative to the model's own jump scale (h = h_rel * scale) so that every
half-axis gets at least two states: the constructors silently build a malformed axis otherwise
(linspace(l, -h, 1) = [l]), which no caller does.  Rejected draws are reported by the checks.
"""
from __future__ import annotations

import math

import numpy as np
from hypothesis import strategies as st

from .models import _f, cgmy_params, vg_params


# ----------------------------------------------------------------- models that grids/chains accept
@st.composite
def chain_model_spec(draw, families=("hem", "merton", "vg", "cgmy"), exp=None, cgmy_branches=None):
    """Two-sided jump laws only (the truncation search divides by the mass of each half-line)."""
    fam = draw(st.sampled_from(list(families)))
    if fam == "hem":
        params = {"sigma": draw(st.one_of(st.just(0.0), _f(0.0, 0.5))), "p": draw(_f(0.05, 0.95)),
                  "eta1": draw(_f(2.0, 60.0)), "eta2": draw(_f(2.0, 60.0)), "intensity": draw(_f(0.1, 20.0))}
    elif fam == "merton":
        sj = draw(_f(0.02, 0.4))
        params = {"sigma": draw(st.one_of(st.just(0.0), _f(0.0, 0.5))),
                  "mu_j": draw(st.one_of(st.just(0.0), _f(0.0, min(0.3, 2 * sj)))),
                  "sigma_j": sj, "intensity": draw(_f(0.1, 20.0))}
    elif fam == "vg":
        params = draw(vg_params())
    else:
        params = draw(cgmy_params(branches=cgmy_branches))
    is_exp = draw(st.booleans()) if exp is None else exp
    spec = {"family": fam, "params": params, "exp": None}
    if is_exp:
        spec["exp"] = {"spot": draw(_f(1.0, 500.0)), "r": draw(_f(0.0, 0.1)), "d": draw(_f(0.0, 0.1))}
    return spec


def model_scale(spec) -> float:
    """Typical jump size of the model (harness-side knowledge, only used to scale h)."""
    fam, p = spec["family"], spec["params"]
    if fam == "hem":
        return min(1.0 / p["eta1"], 1.0 / p["eta2"])
    if fam == "merton":
        return p["sigma_j"]
    if fam == "vg":
        s2 = p["sigma"] ** 2
        lp = math.sqrt(p["theta"] ** 2 + 2 * s2 / p["nu"]) / s2 - p["theta"] / s2
        lm = lp + 2 * p["theta"] / s2
        return min(1.0 / lp, 1.0 / lm)
    if fam == "cgmy":
        return min(1.0 / p["g"], 1.0 / p["m"])
    return 0.1


GRID_TYPES = ["uniform", "uniform-fixed", "geometric", "geometric-bounds", "probstep"]


@st.composite
def grid_spec(draw, types=GRID_TYPES, max_refine=2, dimension=1):
    t = draw(st.sampled_from(list(types)))
    g = {"type": t, "h_rel": draw(_f(0.08, 1.0)), "dimension": dimension}
    if t == "uniform":
        g["p"] = draw(st.sampled_from([0.999, 0.9999, 0.99999]))
    elif t == "uniform-fixed":
        g["n"] = draw(st.integers(4, 120))
    elif t == "geometric":
        g["k"] = draw(st.integers(2, 12))
        g["p"] = draw(st.sampled_from([0.999, 0.9999, 0.99999]))
    elif t == "geometric-bounds":
        g["k"] = draw(st.integers(2, 12))
        g["l_rel"] = draw(_f(4.0, 40.0))
        g["r_rel"] = draw(_f(4.0, 40.0))
    elif t == "probstep":
        g["p_step"] = draw(_f(0.02, 0.2))
    elif t == "axes":
        # a grid the user assembles from an axis of their own (base CTMCGrid): irregular gaps, and possibly states on one
        # side of the origin only - the sampling factory has a branch of its own for each of the three supports
        g["side"] = draw(st.sampled_from(["both", "both", "left-only", "right-only"]))
        g["gaps_left"] = [float(f"{x:.4g}") for x in draw(st.lists(_f(0.3, 3.0), min_size=2, max_size=9))]
        g["gaps_right"] = [float(f"{x:.4g}") for x in draw(st.lists(_f(0.3, 3.0), min_size=2, max_size=9))]
    g["refine"] = draw(st.integers(0, max_refine))
    return g


def spec_h(model_spec, gspec) -> float:
    if gspec.get("h_abs"):  # a step given in absolute terms (very coarse grids)
        return float(gspec["h_abs"])
    return float(f"{gspec['h_rel'] * model_scale(model_spec):.5g}")


class GridRejected(Exception):
    """The drawn arguments would give a half-axis with fewer than two states (outside the sound domain)."""


def build_grid(gspec, model, model_spec=None, h=None, refine=True):
    from rpylib.grid.spatial import CTMCGridGeometric, CTMCGridProbabilityStep, CTMCUniformGrid

    ms = model_spec
    h = h if h is not None else spec_h(ms, gspec)
    t = gspec["type"]
    dim = gspec.get("dimension", 1)
    if t == "uniform":
        g = CTMCUniformGrid(h=h, model=model, truncation_probability=gspec["p"])
    elif t == "uniform-fixed":
        g = CTMCUniformGrid.create_from_fixed_nb_of_points(h=h, nb_of_points=gspec["n"], dimension=dim)
    elif t == "geometric":
        g = CTMCGridGeometric(h=h, model=model, nb_of_points_on_each_side=gspec["k"],
                              truncation_probability=gspec["p"])
    elif t == "geometric-bounds":
        sc = model_scale(ms)
        l, r = -max(gspec["l_rel"] * sc, 2.5 * h), max(gspec["r_rel"] * sc, 2.5 * h)
        g = CTMCGridGeometric.create_with_bounds(h=h, truncations=(l, r), dimension=dim,
                                                 nb_of_points_on_each_side=gspec["k"])
    elif t == "probstep":
        g = CTMCGridProbabilityStep(h=h, model=model, minimum_probability_step=gspec["p_step"],
                                    dimension=dim)
    elif t == "axes":
        from rpylib.grid.spatial import CTMCGrid

        left = [] if gspec["side"] == "right-only" else list(-np.cumsum([h] + [h * x for x in gspec["gaps_left"]]))[::-1]
        right = [] if gspec["side"] == "left-only" else list(np.cumsum([h] + [h * x for x in gspec["gaps_right"]]))
        g = CTMCGrid(h=h, origin_coordinate=len(left), axes=[np.array(left + [0.0] + right)] * dim)
        if refine:
            for _ in range(gspec.get("refine", 0)):
                g.refine()
        return g
    else:
        raise ValueError(t)
    for axis in g.axes:
        oc = g.origin_coordinate.value if dim == 1 and not hasattr(g.origin_coordinate.value, "__len__") \
            else g.origin_coordinate.value[0]
        if oc < 2 or len(axis) - oc - 1 < 2:
            raise GridRejected(f"half-axis with fewer than 2 states: {axis[:4]}...{axis[-4:]}")
        if not np.all(np.isfinite(axis)):
            raise GridRejected("non-finite axis")
    if refine:
        for _ in range(gspec.get("refine", 0)):
            g.refine()
    return g
