"""Levy models a user of the library would write themselves, from its public pieces (imported lazily by vlib.models:
this module imports rpylib at import time)."""
from rpylib.model.levymodel.levymodel import LevyModel, LevyTriplet


class JumpsPlusBrownianModel(LevyModel):
    """the jumps of a library model plus a Brownian component sigma*W: no library family combines a diffusion coefficient
    with jumps of infinite variation"""

    def __init__(self, inner_model, sigma_value):
        t = inner_model.levy_triplet
        self._inner = inner_model
        super().__init__(model_type=inner_model.model_type,
                         levy_triplet=LevyTriplet(a=t.a, sigma=sigma_value, nu=t.nu, representation=t.representation),
                         cumulant=inner_model.cumulant)

    def levy_exponent_pure_jump(self, x):
        return self._inner.levy_exponent_pure_jump(x)

    def intensity(self):
        return self._inner.intensity()
