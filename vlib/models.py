"""Build rpylib models / grids from JSON-serialisable specs, and Hypothesis strategies for the specs.

Parameter boxes contain every parameter set used in rpylib/tests, scripts/ and slurm/ and respect the
constraint descriptors in tools/parameter.py plus the implicit preconditions of the constructors
(eta1 > 1 and p <= 1 for HEM, nu > 0 for VG, g, m > 0 and m > 1 for exponential CGMY).
"""
from __future__ import annotations

import math

from hypothesis import strategies as st


def _f(lo, hi):
    return st.floats(min_value=lo, max_value=hi, allow_nan=False, allow_infinity=False).map(
        lambda v: float(f"{v:.6g}"))


CGMY_BRANCHES = ["y<0", "y=0", "0<y<1", "y=1", "1<y<2"]


@st.composite
def cgmy_params(draw, branches=None, y_max=1.9):
    br = draw(st.sampled_from(branches or CGMY_BRANCHES))
    if br == "y<0":
        y = draw(_f(-1.5, -0.05))
    elif br == "y=0":
        y = 0.0
    elif br == "0<y<1":
        y = draw(_f(0.05, 0.95))
        if draw(st.integers(0, 5)) == 0:  # close to, but not at, the special index 1
            y = draw(st.sampled_from([0.999992, 0.999992, 0.999, 0.99]))
    elif br == "y=1":
        y = 1.0
    else:
        y = draw(_f(1.05, y_max))
        if draw(st.integers(0, 5)) == 0:
            y = draw(st.sampled_from([1.000008, 1.000008, 1.001, 1.01]))
    return {"c": draw(_f(0.01, 5.0)), "g": draw(_f(1.5, 40.0)), "m": draw(_f(1.5, 40.0)), "y": y}


@st.composite
def hem_params(draw):
    return {"sigma": draw(st.one_of(st.just(0.0), _f(0.0, 0.5))), "p": draw(st.one_of(st.just(1.0), _f(0.05, 1.0))),
            "eta1": draw(_f(2.0, 60.0)), "eta2": draw(_f(2.0, 60.0)), "intensity": draw(_f(0.1, 20.0))}


@st.composite
def merton_params(draw):
    if draw(st.integers(0, 7)) == 0:
        # many small jumps (high activity, jump sizes of a few tenths of a percent)
        return {"sigma": draw(st.one_of(st.just(0.0), _f(0.0, 0.3))), "mu_j": draw(_f(0.0, 0.01)),
                "sigma_j": draw(_f(0.001, 0.004)), "intensity": draw(_f(100.0, 10000.0))}
    return {"sigma": draw(st.one_of(st.just(0.0), _f(0.0, 0.5))), "mu_j": draw(st.one_of(st.just(0.0), _f(0.0, 0.3))),
            "sigma_j": draw(_f(0.01, 0.4)), "intensity": draw(_f(0.1, 20.0))}


@st.composite
def vg_params(draw):
    if draw(st.integers(0, 5)) == 0:
        # low volatility and a small variance rate: decay rates of the density in the thousands (jump scale below 1e-3)
        return {"sigma": draw(_f(0.01, 0.05)), "nu": draw(_f(0.01, 0.05)), "theta": draw(_f(-0.05, 0.05))}
    return {"sigma": draw(_f(0.05, 0.5)), "nu": draw(_f(0.01, 1.0)), "theta": draw(_f(-0.4, 0.4))}


@st.composite
def bs_params(draw):
    return {"sigma": draw(_f(0.01, 0.6))}


FAMILIES = {"hem": hem_params, "merton": merton_params, "vg": vg_params, "cgmy": cgmy_params, "bs": bs_params}


@st.composite
def model_spec(draw, families=("hem", "merton", "vg", "cgmy"), exp=None, cgmy_branches=None):
    """exp: None -> drawn; True/False forced."""
    fam = draw(st.sampled_from(list(families)))
    if fam == "cgmy":
        params = draw(cgmy_params(branches=cgmy_branches))
    else:
        params = draw(FAMILIES[fam]())
    is_exp = draw(st.booleans()) if exp is None else exp
    if fam == "bs":
        is_exp = True
    spec = {"family": fam, "params": params, "exp": None}
    if is_exp:
        spec["exp"] = {"spot": draw(_f(1.0, 500.0)), "r": draw(_f(0.0, 0.1)), "d": draw(_f(0.0, 0.1))}
    return spec


def branch_of(spec) -> str:
    if spec["family"] != "cgmy":
        return spec["family"]
    y = spec["params"]["y"]
    if y < 0:
        return "cgmy/y<0"
    if y == 0:
        return "cgmy/y=0"
    if y < 1:
        return "cgmy/0<y<1"
    if y == 1:
        return "cgmy/y=1"
    return "cgmy/1<y<2"


_START = {"hem": {"sigma": 0.2, "p": 0.4, "eta1": 10.0, "eta2": 8.0, "intensity": 1.0},
          "merton": {"sigma": 0.2, "mu_j": 0.05, "sigma_j": 0.1, "intensity": 1.0},
          "vg": {"sigma": 0.2, "nu": 0.3, "theta": -0.1},
          "cgmy": {"c": 1.0, "g": 5.0, "m": 5.0, "y": 0.5}}


def build_params(spec):
    """spec["route"] == "updated": the parameter object is built with other (fixed) values, every parameter is then
    assigned and initialisation() called - the library's own update protocol (what its calibration does)."""
    if spec.get("route") == "updated" and spec["family"] in _START:
        params = build_params({"family": spec["family"], "params": dict(_START[spec["family"]])})
        for k in sorted(spec["params"]):
            setattr(params, k, spec["params"][k])
        params.initialisation()
        return params
    fam, p = spec["family"], spec["params"]
    if fam == "hem":
        from rpylib.model.levymodel.mixed.hem import HEMParameters

        return HEMParameters(**p)
    if fam == "merton":
        from rpylib.model.levymodel.mixed.merton import MertonParameters

        return MertonParameters(**p)
    if fam == "vg":
        from rpylib.model.levymodel.purejump.variancegamma import VGParameters

        return VGParameters(**p)
    if fam == "cgmy":
        from rpylib.model.levymodel.purejump.cgmy import CGMYParameters

        return CGMYParameters(**p)
    if fam == "bs":
        from rpylib.model.levymodel.mixed.blackscholes import BlackScholesParameters

        return BlackScholesParameters(**p)
    raise ValueError(fam)


def build_model(spec, force_exp=None):
    if spec.get("spot_moved") and spec.get("exp") and force_exp is not False:
        # the model is built at another spot, the spot is then assigned (a validated, assignable attribute)
        e = spec["exp"]
        other = dict(spec, exp=dict(e, spot=float(f"{e['spot'] * spec['spot_moved']:.6g}")))
        other.pop("spot_moved")
        model = build_model(other, force_exp=force_exp)
        model.spot = e["spot"]
        return model
    if spec.get("added_sigma") and force_exp is not True:
        inner = build_model({k: v for k, v in spec.items() if k != "added_sigma"}, force_exp=False)
        from vlib.usermodels import JumpsPlusBrownianModel

        return JumpsPlusBrownianModel(inner, float(spec["added_sigma"]))
    fam = spec["family"]
    params = build_params(spec)
    e = spec.get("exp")
    if force_exp is True and e is None:
        e = {"spot": 100.0, "r": 0.02, "d": 0.0}
    if force_exp is False:
        e = None
    if fam == "hem":
        from rpylib.model.levymodel.mixed.hem import ExponentialOfHEMModel, HEMModel

        return ExponentialOfHEMModel(e["spot"], e["r"], e["d"], params) if e else HEMModel(params)
    if fam == "merton":
        from rpylib.model.levymodel.mixed.merton import ExponentialOfMertonModel, MertonModel

        return ExponentialOfMertonModel(e["spot"], e["r"], e["d"], params) if e else MertonModel(params)
    if fam == "vg":
        from rpylib.model.levymodel.purejump.variancegamma import (ExponentialOfVarianceGammaModel,
                                                                   VarianceGammaModel)

        return ExponentialOfVarianceGammaModel(e["spot"], e["r"], e["d"], params) if e else VarianceGammaModel(params)
    if fam == "cgmy":
        from rpylib.model.levymodel.purejump.cgmy import CGMYModel, ExponentialOfCGMYModel

        return ExponentialOfCGMYModel(e["spot"], e["r"], e["d"], params) if e else CGMYModel(params)
    if fam == "bs":
        from rpylib.model.levymodel.mixed.blackscholes import BlackScholesModel

        e = e or {"spot": 100.0, "r": 0.02, "d": 0.0}
        return BlackScholesModel(e["spot"], e["r"], e["d"], params)
    raise ValueError(fam)


def quad_hints(spec):
    """Extra break points for the quadrature oracle (where the density has its mass)."""
    fam, p = spec["family"], spec["params"]
    if fam == "merton":
        mu, s = p["mu_j"], p["sigma_j"]
        return [mu + k * s for k in (-8, -4, -2, -1, 0, 1, 2, 4, 8)]
    if fam == "hem":
        return [k / p["eta1"] for k in (1, 4, 16)] + [-k / p["eta2"] for k in (1, 4, 16)]
    if fam == "cgmy":
        return [k / p["m"] for k in (1, 4, 16)] + [-k / p["g"] for k in (1, 4, 16)]
    if fam == "vg":
        s2 = p["sigma"] ** 2
        lp = math.sqrt(p["theta"] ** 2 + 2 * s2 / p["nu"]) / s2 - p["theta"] / s2
        lm = lp + 2 * p["theta"] / s2
        return [k / lp for k in (1, 4, 16)] + [-k / lm for k in (1, 4, 16)]
    return []


def activity(spec):
    """(finite_activity, finite_variation) from the density's behaviour at zero (harness-side knowledge)."""
    fam = spec["family"]
    if fam in ("hem", "merton", "bs"):
        return True, True
    if fam == "vg":
        return False, True
    y = spec["params"]["y"]
    return y < 0, y < 1


# ----------------------------------------------------------------- Levy copula models
@st.composite
def copula_spec(draw):
    t = draw(st.sampled_from(["clayton", "clayton", "clayton", "independent", "dependent"]))
    if t == "clayton":
        return {"type": t, "theta": draw(_f(0.2, 5.0)),
                "eta": draw(st.one_of(st.sampled_from([0.0, 1.0]), _f(0.0, 1.0)))}
    return {"type": t}


def build_copula(cspec):
    from rpylib.distribution.levycopula import (ClaytonCopula, DependentComponentsCopula,
                                                IndependentComponentsCopula)

    if cspec["type"] == "clayton":
        return ClaytonCopula(theta=cspec["theta"], eta=cspec["eta"])
    if cspec["type"] == "independent":
        return IndependentComponentsCopula()
    return DependentComponentsCopula()


def build_copula_model(spec):
    """spec = {"margins": [model specs], "copula": copula spec}; margins all exponential or none."""
    from rpylib.model.levycopulamodel import LevyCopulaModel

    models = [build_model(m) for m in spec["margins"]]
    return LevyCopulaModel(models=models, copula=build_copula(spec["copula"]))
