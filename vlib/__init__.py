"""Verification harness for rpalfray/rpylib (property-based testing / fuzzing)."""
