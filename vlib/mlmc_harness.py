"""Runs the real multilevel engine against the scripted coupling and records everything observable."""
from __future__ import annotations

import itertools

import numpy as np
from hypothesis import strategies as st

from .models import _f
from .scripted import LEDGERS, PassBudgetExceeded, ScriptedCoupling, new_ledger

_counter = itertools.count()
PASS_BUDGET = 200


@st.composite
def mlmc_case(draw, tier, with_cv=True, modes=("adaptive", "adaptive", "adaptive", "fixed"), low_levels=False,
              path_dependent=False):
    law = {"seed": draw(st.integers(1, 10 ** 6)), "base": draw(_f(-1.0, 1.0)), "s_base": draw(_f(0.1, 2.0)),
           "m0": draw(_f(0.01, 1.0)), "alpha": draw(_f(0.5, 2.0)), "s0": draw(_f(0.05, 1.0)),
           "beta": draw(_f(0.5, 3.0)), "cost0": draw(st.sampled_from([1.0, 1.0, 0.01, 1e-4, 40.0])), "gamma": draw(_f(0.0, 2.0)), "maturity": draw(_f(0.1, 2.0))}
    mode = draw(st.sampled_from(list(modes)))
    l0 = draw(st.integers(2, 4))
    # Giles' criterion reads three level means (initial level >= 2, the default); with the "run to the maximum level"
    # criterion of the library one- and two-level runs are legitimate as well (convergence rates given)
    criteria = "giles"
    if low_levels and draw(st.integers(0, 3)) == 0:
        criteria = "run-to-max"
        l0 = draw(st.integers(0, 2))
    case = {"law": law, "mode": mode, "initial_level": l0, "criteria": criteria,
            # (a maximum below the initial level is a legitimate, if odd, configuration: the run starts at the maximum)
            "maximum_level": draw(st.integers(max(l0 - 2, 2 if criteria == "giles" else 0), 8 if mode == "adaptive" else 6)),
            "n0": draw(st.integers(2, 40)), "rmse_rel": draw(_f(0.03, 0.5)),
            "rates": draw(st.sampled_from(["given", "regressed", "mixed"])),
            "df": draw(_f(0.5, 1.0)), "notional": draw(st.sampled_from([1.0, 0.01, 250.0, 1.0, 1e-6, 1e-9])),
            "strike": draw(_f(-1.0, 1.0)), "payoff": draw(st.sampled_from(["forward", "call", "put"])),
            "controls": draw(st.lists(st.tuples(_f(-1.0, 1.0), _f(-1.0, 1.0)), max_size=2)) if with_cv else []}
    case["rmse"] = float(f"{case['rmse_rel'] * case['notional'] * case['df'] * law['s_base']:.6g}")
    if path_dependent and draw(st.integers(0, 3)) == 0:
        # a down-and-out call: the paths get an intermediate date; the barrier lies below the start value 0
        law["mid"] = True
        case["payoff"] = "barrier"
        case["barrier"] = float(f"{min(law['base'] - draw(_f(0.2, 1.2)) * law['s_base'], -0.05):.6g}")
    if low_levels:
        flavour = draw(st.sampled_from(["plain"] * 5 + ["quiet", "identical-top-level"]))
        if flavour == "quiet":
            # a nearly deterministic payoff: dispersion 1e-5 of the level of the samples (rmse scales with s_base)
            law["base"], law["s_base"], law["s0"], law["m0"] = 1.0, 1e-5, draw(_f(1e-7, 1e-5)), draw(_f(1e-7, 1e-5))
            case["rmse"] = float(f"{case['rmse_rel'] * case['notional'] * case['df'] * law['s_base']:.6g}")
        elif flavour == "identical-top-level" and criteria == "giles":
            law["identical_levels"] = [l0]
        case["flavour"] = flavour
    case["config_reassigned"] = draw(st.sampled_from([0, 0, 0, 17, -1])) if case["n0"] > 2 else 0
    if low_levels and criteria == "giles" and draw(st.integers(0, 7)) == 0:
        case["rates"] = "zero-alpha"
        case["maximum_level"] = min(case["maximum_level"], l0 + 2)
    if criteria == "run-to-max":
        case["rates"] = "given"
        case["maximum_level"] = min(case["maximum_level"], l0 + 3)
    return case


def build_engine(case, ledger_key, mode="hash", seed=None, nb_of_processes=1, spies=None):
    from rpylib.montecarlo.configuration import ConfigurationMultiLevel, ConvergenceRates
    from rpylib.montecarlo.multilevel.criteria import (ConvergenceCriteria, compute_mc_paths_giles,
                                                       criteria_giles)
    from rpylib.montecarlo.multilevel.engine import Engine
    from rpylib.product.payoff import Forward, PayoffType, Vanilla
    from rpylib.product.product import ControlVariates, Product
    from rpylib.product.underlying import Spot

    law = case["law"]
    cp = ScriptedCoupling(ledger_key, law, df=case["df"], mode=mode, max_samples=case.get("max_samples", 30000),
                          zero_cost_levels=case.get("zero_cost_levels", ()), max_level=int(case["maximum_level"]) + 3)
    if case["payoff"] == "forward":
        payoff = Forward(strike=case["strike"])
    elif case["payoff"] == "barrier":
        from rpylib.product.payoff import Barrier, BarrierType

        payoff = Barrier(strike=case["strike"], payoff_type=PayoffType.CALL, barrier_type=BarrierType.DOWN_AND_OUT,
                         barrier=case["barrier"])
    else:
        payoff = Vanilla(strike=case["strike"], payoff_type=PayoffType.CALL if case["payoff"] == "call" else PayoffType.PUT)
    product = Product(payoff_underlying=Spot(), payoff=payoff, maturity=law["maturity"], notional=case["notional"])
    cv = None
    if case["controls"]:
        # first control: forward; second control: call (two forwards on the same spot would be collinear)
        cv = ControlVariates([Product(payoff_underlying=Spot(),
                                      payoff=Forward(strike=k) if i == 0 else Vanilla(strike=k, payoff_type=PayoffType.CALL),
                                      maturity=law["maturity"])
                              for i, (k, _) in enumerate(case["controls"])], [p for _, p in case["controls"]])
    if case["rates"] == "given":
        rates = ConvergenceRates(alpha=law["alpha"], beta=law["beta"], gamma=max(law["gamma"], 1e-6)) \
            if law["alpha"] >= 0.5 * min(law["beta"], max(law["gamma"], 1e-6)) else ConvergenceRates(alpha=law["alpha"])
    elif case["rates"] == "zero-alpha":
        # weak rate 0 (Blumenthal-Getoor index 2, compute_convergence_rates(2.0)): a configured value like any other
        # (given alone: with beta and gamma the constructor requires alpha >= min(beta, gamma) / 2)
        rates = ConvergenceRates(alpha=0.0)
    elif case["rates"] == "mixed":
        rates = ConvergenceRates(alpha=law["alpha"])
    else:
        rates = ConvergenceRates()
    crit_calls, alloc_calls = [], []

    from rpylib.montecarlo.multilevel.criteria import criteria_run_to_maximum_level

    the_criteria = criteria_run_to_maximum_level if case.get("criteria") == "run-to-max" else criteria_giles

    def crit(alpha, ml, rmse):
        r = bool(the_criteria(alpha, ml, rmse))
        crit_calls.append({"alpha": float(alpha), "ml": np.array(ml, dtype=float).copy(), "rmse": float(rmse), "result": r})
        return r

    def alloc(rmse, vl, cl):
        ns = compute_mc_paths_giles(rmse, vl, cl)
        alloc_calls.append({"rmse": float(rmse), "vl": np.array(vl, dtype=float).copy(),
                            "cl": np.array(cl, dtype=float).copy(), "Ns": np.array(ns).copy()})
        return ns

    if case.get("config_reassigned"):
        # one configuration object re-used in a sweep: built for other values, its public attributes assigned afterwards
        config = ConfigurationMultiLevel(convergence_rates=rates,
                                         convergence_criteria=ConvergenceCriteria(criteria=crit, compute_mc_paths=alloc),
                                         initial_level=case["initial_level"] + 1, maximum_level=case["maximum_level"] + 2,
                                         initial_mc_paths=case["n0"] + int(case["config_reassigned"]), seed=seed,
                                         control_variates=cv, nb_of_processes=None if nb_of_processes == 1 else nb_of_processes)
        config.initial_level, config.maximum_level = case["initial_level"], case["maximum_level"]
        config.initial_mc_paths = case["n0"]
        config.nb_of_processes = nb_of_processes
    else:
        config = ConfigurationMultiLevel(convergence_rates=rates,
                                         convergence_criteria=ConvergenceCriteria(criteria=crit, compute_mc_paths=alloc),
                                         initial_level=case["initial_level"], maximum_level=case["maximum_level"],
                                         initial_mc_paths=case["n0"], seed=seed, control_variates=cv,
                                         nb_of_processes=nb_of_processes)
    engine = Engine(configuration=config, coupling_process=cp)
    return engine, product, crit_calls, alloc_calls


def run_scripted_mlmc(case, mode="hash", seed=None):
    """case["priced_before"] = factor: the same Engine object first prices the product at rmse*factor (a looser or
    tighter run, discarded); the record then describes the second pricing only (ledger offsets in rec["offsets"])."""
    from rpylib.montecarlo.statistic.statistic import MLMCStatistics

    key = f"led-{next(_counter)}"
    ledger = new_ledger(key)
    engine, product, crit_calls, alloc_calls = build_engine(case, key, mode=mode, seed=seed)
    offsets = {}
    if case.get("priced_before"):
        try:
            if case["mode"] == "adaptive":
                engine.price(product, case["rmse"] * case["priced_before"])
            else:
                engine.price_with_constant_mc_paths_and_level(product)
        except PassBudgetExceeded as e:
            LEDGERS.pop(key, None)
            return {"ledger": ledger, "passes": [], "crit_calls": crit_calls, "alloc_calls": alloc_calls,
                    "status": "budget", "error": str(e), "stats": None, "engine": engine, "product": product, "offsets": {}}
        offsets = {l: ledger.count(l) for l in ledger.samples}
        del crit_calls[:], alloc_calls[:]
    passes = []
    orig = MLMCStatistics.set_mlmc_results

    def spy(self, Nl, sum_cost):
        orig(self, Nl=Nl, sum_cost=sum_cost)
        if len(passes) > PASS_BUDGET:
            raise PassBudgetExceeded("pass budget")
        res = self.mlmc_results
        snap = {"Nl": np.array(Nl).copy(), "sum_cost": np.array(sum_cost, dtype=float).copy(),
                "fine": [np.array(self.simulation_payoff_with_fine_process(l, no_control_variates=True)).copy()
                         for l in range(len(Nl))],
                "coarse": [np.array(self.simulation_payoff_with_coarse_process(l, no_control_variates=True)).copy()
                           for l in range(len(Nl))],
                "fine_cv": [np.array(self.simulation_payoff_with_fine_process(l)).copy() for l in range(len(Nl))],
                "coarse_cv": [np.array(self.simulation_payoff_with_coarse_process(l)).copy() for l in range(len(Nl))],
                "ledger_counts": {l: ledger.count(l) for l in ledger.samples},
                "results": {k: np.array(getattr(res, k), dtype=float).copy()
                            for k in ("ml", "vl", "mean_level_l", "var_level_l", "kurtosis", "cl")},
                "cost": float(res.cost), "price_raw": float(self.price(no_control_variates=True)),
                "price": float(self.price())}
        passes.append(snap)

    MLMCStatistics.set_mlmc_results = spy
    status, error, stats = "returned", None, None
    try:
        if case["mode"] == "adaptive":
            stats = engine.price(product, case["rmse"])
        else:
            stats = engine.price_with_constant_mc_paths_and_level(product)
    except PassBudgetExceeded as e:
        status, error = "budget", str(e)
    finally:
        MLMCStatistics.set_mlmc_results = orig
        LEDGERS.pop(key, None)
    return {"ledger": ledger, "passes": passes, "crit_calls": crit_calls, "alloc_calls": alloc_calls,
            "status": status, "error": error, "stats": stats, "engine": engine, "product": product, "offsets": offsets}
