"""Process bootstrap: environment variables and sys.path for importing rpylib offline.

Imported first by every entry point (and again, harmlessly, in every worker process).
"""
import os
import sys

VERIF_ROOT = os.path.dirname(os.path.dirname(os.path.abspath(__file__)))
SHIMS = os.path.join(VERIF_ROOT, "shims")

# development-only: point the checks at a scratch copy of the repository (mutant self-test).
# Unset => the editable install, i.e. /repo's working tree, which every registered command uses.
RPYLIB_SRC = os.environ.get("RPYLIB_SRC", "")
REPO_ROOT = RPYLIB_SRC or "/repo"

os.environ.setdefault("SYMPY_GROUND_TYPES", "python")
os.environ.setdefault("MPLBACKEND", "Agg")
os.environ.setdefault("PYTHONDONTWRITEBYTECODE", "1")
os.environ.setdefault("OMP_NUM_THREADS", "1")
os.environ.setdefault("OPENBLAS_NUM_THREADS", "1")
os.environ.setdefault("MKL_NUM_THREADS", "1")
# guard for (currently non-existent) source hooks, see MANIFEST.hooks
os.environ.setdefault("RPYLIB_VERIF", "1")
sys.dont_write_bytecode = True

for p in (SHIMS, VERIF_ROOT):
    if p not in sys.path:
        sys.path.insert(0, p)
if RPYLIB_SRC and RPYLIB_SRC not in sys.path:
    sys.path.insert(0, RPYLIB_SRC)


def rpylib_dir() -> str:
    import rpylib

    return os.path.dirname(os.path.abspath(rpylib.__file__))
